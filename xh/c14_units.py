"""CrossHair conditions for C14 over the REAL nanite.preproc (imported from
/repo/src).  Step bodies are replaced by no-ops (only the order logic is the
subject); registration data (identifier, steps_required, steps_optional) are
the real ones."""
import os
import sys
from typing import List

sys.path.insert(0, os.path.join(os.environ.get("NANITE_REPO", "/repo"), "src"))
from nanite import preproc  # noqa: E402

IDS = [pp.identifier for pp in preproc.PREPROCESSORS]
NSTEPS = len(IDS)
REQ = {pp.identifier: list(pp.steps_required or []) for pp in preproc.PREPROCESSORS}
OPT = {pp.identifier: list(pp.steps_optional or []) for pp in preproc.PREPROCESSORS}


class _Curve:
    """Minimal stand-in for the curve handed to preproc.apply."""
    def reset_data(self):
        pass


def _noop(f):
    def step(apret, **kwargs):
        return None
    for a in ("identifier", "name", "options", "steps_required", "steps_optional"):
        setattr(step, a, getattr(f, a))
    return step


_NOOPS = [_noop(f) for f in preproc.PREPROCESSORS]


def closed(sel):
    return all(r in sel for s in sel for r in REQ[s])


def order_valid(sel):
    """Independent statement of the order rule."""
    for i, s in enumerate(sel):
        for r in REQ[s]:
            if r not in sel[:i]:
                return False
        for o in OPT[s]:
            if o in sel and o not in sel[:i]:
                return False
    return True


def apply_accepts(sel):
    """Independent statement of what apply must accept."""
    for i, s in enumerate(sel):
        for r in REQ[s]:
            if r not in sel[:i]:
                return False
    return True


def autosort_ok(idx):
    sel = [IDS[i] for i in idx]
    if not closed(sel):
        return True
    try:
        out = preproc.autosort(list(sel))
    except ValueError:
        return False
    if sorted(out) != sorted(sel):
        return False
    if not order_valid(out):
        return False
    try:
        preproc.check_order(out)
    except ValueError:
        return False
    if preproc.autosort(list(out)) != out:
        return False
    if order_valid(sel) and out != sel:
        return False
    return True


def check_order_ok(idx):
    sel = [IDS[i] for i in idx]
    if not closed(sel):
        return True
    try:
        preproc.check_order(sel)
        passed = True
    except ValueError:
        passed = False
    return passed == order_valid(sel)


def apply_ok(idx):
    sel = [IDS[i] for i in idx]
    saved = list(preproc.PREPROCESSORS)
    preproc.PREPROCESSORS[:] = _NOOPS
    try:
        try:
            preproc.apply(_Curve(), identifiers=sel, options={})
            accepted = True
        except ValueError:
            accepted = False
    finally:
        preproc.PREPROCESSORS[:] = saved
    return accepted == apply_accepts(sel)


def available_ok():
    av = preproc.available()
    return sorted(av) == sorted(IDS) and order_valid(av)


def unknown_ok(s):
    if s in IDS:
        return True
    for call in (lambda: preproc.autosort([s]), lambda: preproc.check_order([s]),
                 lambda: preproc.apply(_Curve(), identifiers=[s], options={}),
                 lambda: preproc.autosort([IDS[0], s])):
        try:
            call()
            return False
        except KeyError:
            pass
    return True


def _valid_idx(idx, n):
    return len(idx) == n and all(0 <= i < NSTEPS for i in idx) and len(set(idx)) == len(idx)


# -- conditions (one per length so they run in parallel) -----------------------
# GENERATED-BELOW

def autosort_len0(idx: List[int]) -> bool:
    """
    pre: _valid_idx(idx, 0)
    post: _
    """
    return autosort_ok(idx)

def autosort_len1(idx: List[int]) -> bool:
    """
    pre: _valid_idx(idx, 1)
    post: _
    """
    return autosort_ok(idx)

def autosort_len2(idx: List[int]) -> bool:
    """
    pre: _valid_idx(idx, 2)
    post: _
    """
    return autosort_ok(idx)

def autosort_len3(idx: List[int]) -> bool:
    """
    pre: _valid_idx(idx, 3)
    post: _
    """
    return autosort_ok(idx)

def autosort_len4(idx: List[int]) -> bool:
    """
    pre: _valid_idx(idx, 4)
    post: _
    """
    return autosort_ok(idx)

def autosort_len5(idx: List[int]) -> bool:
    """
    pre: _valid_idx(idx, 5)
    post: _
    """
    return autosort_ok(idx)

def autosort_len6(idx: List[int]) -> bool:
    """
    pre: _valid_idx(idx, 6)
    post: _
    """
    return autosort_ok(idx)

def check_order_len0(idx: List[int]) -> bool:
    """
    pre: _valid_idx(idx, 0)
    post: _
    """
    return check_order_ok(idx)

def check_order_len1(idx: List[int]) -> bool:
    """
    pre: _valid_idx(idx, 1)
    post: _
    """
    return check_order_ok(idx)

def check_order_len2(idx: List[int]) -> bool:
    """
    pre: _valid_idx(idx, 2)
    post: _
    """
    return check_order_ok(idx)

def check_order_len3(idx: List[int]) -> bool:
    """
    pre: _valid_idx(idx, 3)
    post: _
    """
    return check_order_ok(idx)

def check_order_len4(idx: List[int]) -> bool:
    """
    pre: _valid_idx(idx, 4)
    post: _
    """
    return check_order_ok(idx)

def check_order_len5(idx: List[int]) -> bool:
    """
    pre: _valid_idx(idx, 5)
    post: _
    """
    return check_order_ok(idx)

def check_order_len6(idx: List[int]) -> bool:
    """
    pre: _valid_idx(idx, 6)
    post: _
    """
    return check_order_ok(idx)

def apply_len0(idx: List[int]) -> bool:
    """
    pre: _valid_idx(idx, 0)
    post: _
    """
    return apply_ok(idx)

def apply_len1(idx: List[int]) -> bool:
    """
    pre: _valid_idx(idx, 1)
    post: _
    """
    return apply_ok(idx)

def apply_len2(idx: List[int]) -> bool:
    """
    pre: _valid_idx(idx, 2)
    post: _
    """
    return apply_ok(idx)

def apply_len3(idx: List[int]) -> bool:
    """
    pre: _valid_idx(idx, 3)
    post: _
    """
    return apply_ok(idx)

def apply_len4(idx: List[int]) -> bool:
    """
    pre: _valid_idx(idx, 4)
    post: _
    """
    return apply_ok(idx)

def apply_len5(idx: List[int]) -> bool:
    """
    pre: _valid_idx(idx, 5)
    post: _
    """
    return apply_ok(idx)

def apply_len6(idx: List[int]) -> bool:
    """
    pre: _valid_idx(idx, 6)
    post: _
    """
    return apply_ok(idx)

def unknown_identifier(s: str) -> bool:
    """
    pre: len(s) <= 3
    post: _
    """
    return unknown_ok(s)


def available_valid(dummy: int) -> bool:
    """
    post: _
    """
    return available_ok()


def twin_reachable_len3(idx: List[int]) -> bool:
    """
    pre: _valid_idx(idx, 3)
    pre: closed([IDS[i] for i in idx])
    post: not _
    """
    return autosort_ok(idx) or True


def twin_unknown(s: str) -> bool:
    """
    pre: len(s) <= 3
    pre: s not in IDS
    post: not _
    """
    return True


# -- the same acceptance rule through the public curve API (two requests) -------
import numpy as _np  # noqa: E402
import nanite as _nanite  # noqa: E402


def _curve():
    z = _np.zeros(3)
    return _nanite.Indentation(
        data={"force": z.copy(), "height (measured)": z.copy(), "tip position": z.copy(), "time": z.copy(),
              "segment": _np.zeros(3, dtype=_np.uint8)},
        metadata={"path": "/x.jpk-force", "enum": 0, "point count": 3, "imaging mode": "force-distance",
                  "spring constant": 0.1})


def curve_api_ok(idx1, idx2):
    """apply_preprocessing(sel1) then apply_preprocessing(sel2): the second
    request is accepted iff every step's required steps occur earlier in sel2,
    whatever the first request was."""
    sel1 = [IDS[i] for i in idx1]
    sel2 = [IDS[i] for i in idx2]
    saved = list(preproc.PREPROCESSORS)
    preproc.PREPROCESSORS[:] = _NOOPS
    try:
        c = _curve()
        try:
            c.apply_preprocessing(list(sel1))
        except ValueError:
            pass
        try:
            c.apply_preprocessing(list(sel2))
            accepted = True
        except ValueError:
            accepted = False
        reported = list(c.preprocessing)
    finally:
        preproc.PREPROCESSORS[:] = saved
    if accepted != apply_accepts(sel2):
        return False
    if accepted and reported != sel2:
        return False
    return True


def curve_api_len0_0(idx1: List[int], idx2: List[int]) -> bool:
    """
    pre: _valid_idx(idx1, 0) and _valid_idx(idx2, 0)
    post: _
    """
    return curve_api_ok(idx1, idx2)


def curve_api_len0_1(idx1: List[int], idx2: List[int]) -> bool:
    """
    pre: _valid_idx(idx1, 0) and _valid_idx(idx2, 1)
    post: _
    """
    return curve_api_ok(idx1, idx2)


def curve_api_len0_2(idx1: List[int], idx2: List[int]) -> bool:
    """
    pre: _valid_idx(idx1, 0) and _valid_idx(idx2, 2)
    post: _
    """
    return curve_api_ok(idx1, idx2)


def curve_api_len0_3(idx1: List[int], idx2: List[int]) -> bool:
    """
    pre: _valid_idx(idx1, 0) and _valid_idx(idx2, 3)
    post: _
    """
    return curve_api_ok(idx1, idx2)


def curve_api_len1_0(idx1: List[int], idx2: List[int]) -> bool:
    """
    pre: _valid_idx(idx1, 1) and _valid_idx(idx2, 0)
    post: _
    """
    return curve_api_ok(idx1, idx2)


def curve_api_len1_1(idx1: List[int], idx2: List[int]) -> bool:
    """
    pre: _valid_idx(idx1, 1) and _valid_idx(idx2, 1)
    post: _
    """
    return curve_api_ok(idx1, idx2)


def curve_api_len1_2(idx1: List[int], idx2: List[int]) -> bool:
    """
    pre: _valid_idx(idx1, 1) and _valid_idx(idx2, 2)
    post: _
    """
    return curve_api_ok(idx1, idx2)


def curve_api_len1_3(idx1: List[int], idx2: List[int]) -> bool:
    """
    pre: _valid_idx(idx1, 1) and _valid_idx(idx2, 3)
    post: _
    """
    return curve_api_ok(idx1, idx2)


def curve_api_len2_0(idx1: List[int], idx2: List[int]) -> bool:
    """
    pre: _valid_idx(idx1, 2) and _valid_idx(idx2, 0)
    post: _
    """
    return curve_api_ok(idx1, idx2)


def curve_api_len2_1(idx1: List[int], idx2: List[int]) -> bool:
    """
    pre: _valid_idx(idx1, 2) and _valid_idx(idx2, 1)
    post: _
    """
    return curve_api_ok(idx1, idx2)


def curve_api_len2_2(idx1: List[int], idx2: List[int]) -> bool:
    """
    pre: _valid_idx(idx1, 2) and _valid_idx(idx2, 2)
    post: _
    """
    return curve_api_ok(idx1, idx2)


def curve_api_len2_3(idx1: List[int], idx2: List[int]) -> bool:
    """
    pre: _valid_idx(idx1, 2) and _valid_idx(idx2, 3)
    post: _
    """
    return curve_api_ok(idx1, idx2)


def curve_api_len3_0(idx1: List[int], idx2: List[int]) -> bool:
    """
    pre: _valid_idx(idx1, 3) and _valid_idx(idx2, 0)
    post: _
    """
    return curve_api_ok(idx1, idx2)


def curve_api_len3_1(idx1: List[int], idx2: List[int]) -> bool:
    """
    pre: _valid_idx(idx1, 3) and _valid_idx(idx2, 1)
    post: _
    """
    return curve_api_ok(idx1, idx2)


def curve_api_len3_2(idx1: List[int], idx2: List[int]) -> bool:
    """
    pre: _valid_idx(idx1, 3) and _valid_idx(idx2, 2)
    post: _
    """
    return curve_api_ok(idx1, idx2)


def curve_api_len3_3(idx1: List[int], idx2: List[int]) -> bool:
    """
    pre: _valid_idx(idx1, 3) and _valid_idx(idx2, 3)
    post: _
    """
    return curve_api_ok(idx1, idx2)
