"""Driver for CrossHair-decided checks: one `crosshair check` process per
condition (parallel), 'Confirmed over all paths' is the only success,
counterexamples are replayed on the real code with /venv/bin/python."""
import concurrent.futures as cf
import hashlib
import json
import os
import re
import subprocess
import sys
import time

VERIF = os.path.dirname(os.path.dirname(os.path.abspath(__file__)))
REPO = os.environ.get("NANITE_REPO", "/repo")
XH = os.path.join(VERIF, ".venv", "bin", "crosshair")


def run_condition(units_path, fn, timeout_s):
    src = open(units_path).read().splitlines()
    line = next(i for i, l in enumerate(src, 1) if l.startswith(f"def {fn}("))
    t0 = time.time()
    try:
        p = subprocess.run([XH, "check", "--report_all", "--per_condition_timeout", str(timeout_s),
                            "--per_path_timeout", str(max(10, timeout_s // 4)),
                            f"{units_path}:{line}"], capture_output=True, text=True,
                           timeout=timeout_s * 3 + 120, cwd=VERIF,
                           env=dict(os.environ, PYTHONPATH=VERIF, PYTHONHASHSEED="0"))
        out = p.stdout + p.stderr
    except subprocess.TimeoutExpired:
        out = "TIMEOUT"
    wall = time.time() - t0
    res = {"fn": fn, "wall": wall, "raw": out[-1500:]}
    m = re.search(r"error: (.*?) when calling (.*?\))(?: \(which returns (.*)\))?\s*$", out, re.M)
    if "Confirmed over all paths" in out:
        res["verdict"] = "confirmed"
    elif m:
        res["verdict"] = "counterexample"
        res["call"] = m.group(2)
        res["what"] = m.group(1)
    elif "Not confirmed" in out:
        res["verdict"] = "not-confirmed"
    elif "Unable to meet precondition" in out:
        res["verdict"] = "unable-to-meet-precondition"
    else:
        res["verdict"] = "error"
    return res


def main(prop_id, tier, mod):
    from symx.driver import run_replay, load_known
    t0 = time.time()
    seed = int(os.environ.get("VERIF_SEED", "0") or 0)
    units = os.path.join(VERIF, mod.UNITS)
    conds = mod.conditions(tier)
    workers = int(os.environ.get("VERIF_WORKERS", "16"))

    def log(msg):
        print(f"[{prop_id} {tier} +{time.time() - t0:6.1f}s] {msg}", flush=True)
    with cf.ThreadPoolExecutor(max_workers=workers) as ex:
        results = list(ex.map(lambda c: run_condition(units, c["fn"], c["timeout_s"]), conds))
    known = load_known()
    known_keys = {(k["property"], k["key"]): k for k in known.get("known", [])}
    inconclusive, violations, known_hits = [], [], {}
    confirmed = 0
    replay_dir = os.path.join(VERIF, "replays", prop_id)
    os.makedirs(replay_dir, exist_ok=True)
    samples = []
    for c, r in zip(conds, results):
        if r["verdict"] == "confirmed":
            confirmed += 1
            if len(samples) < 6:
                samples.append({"condition": r["fn"], "verdict": "Confirmed over all paths",
                                "wall_s": round(r["wall"], 1)})
        elif r["verdict"] == "counterexample":
            key = mod.classify(c, r)
            script = mod.replay(c, r)
            path = os.path.join(replay_dir, f"{r['fn']}_{hashlib.sha1(key.encode()).hexdigest()[:8]}.py")
            with open(path, "w") as fh:
                fh.write(script)
            st, out = run_replay(path)
            if st == "reproduced":
                if (prop_id, key) in known_keys:
                    known_hits.setdefault(key, {"what": known_keys[(prop_id, key)]["what"], "n": 0, "replay": path})
                    known_hits[key]["n"] += 1
                else:
                    violations.append({"key": key, "replay": path, "call": r["call"], "fn": r["fn"]})
            else:
                log(f"counterexample {r['call']} did not reproduce ({st}): {out[-300:]}")
                inconclusive.append(f"{r['fn']}: spurious/erroneous counterexample {r['call']}")
            samples.append({"condition": r["fn"], "verdict": "counterexample", "call": r["call"]})
        else:
            inconclusive.append(f"{r['fn']}: {r['verdict']}")
            log(f"{r['fn']}: {r['verdict']}: {r['raw'][-300:]}")
    # vacuity: each condition family has a twin whose postcondition is False
    twins = []
    if hasattr(mod, "twins"):
        with cf.ThreadPoolExecutor(max_workers=workers) as ex:
            twins = list(ex.map(lambda c: run_condition(units, c["fn"], c["timeout_s"]), mod.twins(tier)))
        for r in twins:
            if r["verdict"] != "counterexample":
                inconclusive.append(f"vacuity twin {r['fn']} was not refuted ({r['verdict']})")
    seen = set()
    for key, kh in known_hits.items():
        print(f"KNOWN-FINDING: property={prop_id} {kh['what']} [key={key}; {kh['n']} condition(s); replay={kh['replay']}]")
    uniq = []
    for v in violations:
        if v["key"] in seen:
            continue
        seen.add(v["key"])
        uniq.append(v)
        print(f"VIOLATION property={prop_id} replay={v['replay']}", flush=True)
        log(f"  counterexample: {v['call']}")
    import hashlib as _h
    hashes = {}
    for f in mod.SOURCES:
        pth = os.path.join(REPO, f)
        hashes[f] = _h.sha256(open(pth, "rb").read()).hexdigest()
    wall = time.time() - t0
    ev = {
        "property_id": prop_id, "tier": tier, "seed": seed, "level": "other",
        "coverage": {
            "explanation": mod.EXPLANATION,
            "obligations": len(conds), "discharged": confirmed,
            "conditions": [{"fn": r["fn"], "verdict": r["verdict"], "wall_s": round(r["wall"], 1)} for r in results],
            "vacuity_twins": [{"fn": r["fn"], "verdict": r["verdict"]} for r in twins],
            "bounds": mod.bounds(tier), "exhaustive": not inconclusive and not uniq,
            "sources_encoded_sha256": hashes,
            "functions_encoded": mod.FUNCTIONS,
            "solver": "CrossHair 0.0.110 / z3 (crosshair check --report_all), success = 'Confirmed over all paths'",
            "solver_time_s": round(sum(r["wall"] for r in results), 1),
            "samples": samples or [{"note": "none"}],
            "known_findings_hit": {k: v["n"] for k, v in known_hits.items()},
            "inconclusive": inconclusive,
        },
        "assumptions": list(mod.ASSUMPTIONS), "wall_s": round(wall, 2), "violations": len(uniq),
    }
    with open(os.path.join(VERIF, "evidence", f"{prop_id}.json"), "w") as fh:
        json.dump(ev, fh, indent=1)
    log(f"conditions={len(conds)} confirmed={confirmed} known={len(known_hits)} violations={len(uniq)} wall={wall:.1f}s")
    if uniq:
        return 1
    if inconclusive:
        for m in inconclusive[:10]:
            log("INCONCLUSIVE: " + m)
        return 2
    return 0
