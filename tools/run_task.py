#!/verif/.venv/bin/python
"""Explore only the tasks whose name contains a substring: tools/run_task.py C05 thorough plateau:cone:12+2"""
import sys, time, importlib
sys.path.insert(0, "/verif")
from symx import driver
def main():
    pid, tier, pat = sys.argv[1], sys.argv[2], sys.argv[3]
    mod = importlib.import_module(f"harness.{pid.lower()}")
    tasks = [t for t in mod.tasks(tier) if pat in t["name"]]
    for t in tasks:
        t.setdefault("timeout_ms", mod.QUERY_TIMEOUT_MS[tier])
    t0 = time.time()
    agg, hashes, entered = driver.explore(f"harness.{pid.lower()}", tasks, 16, time.time() + 3300, print)
    for tn, a in agg.items():
        bad = [(o["name"], o["result"]) for o in a["obligations"] if o["result"] != "unsat"]
        print(tn, "paths", a["paths"], a["status"], "queries", a["queries"], "non-unsat", bad[:6], "truncated", a["truncated"])
        for o in sorted(a["obligations"], key=lambda o: -o.get("time", 0))[:3]:
            print("    slowest:", o["name"], round(o.get("time", 0), 1), "s", o["result"], "prefix", o.get("prefix"))
        for o in [o for o in a["obligations"] if o["result"] != "unsat"][:3]:
            print("    info:", o["name"], str(o.get("info"))[:600], "MODEL", str(o.get("model"))[:900])
        for e in a["errors"][:3]:
            print("   ", e[-1200:])
    print("wall", time.time() - t0)


if __name__ == '__main__':
    main()
