#!/usr/bin/env python3
"""Apply each seeded change to /repo, run the property's check (quick or the
given tier), undo it, and record whether the check reported a VIOLATION.
usage: tools/eval_seeds.py [tier] [ID ...]"""
import json, os, subprocess, sys, time, glob
VERIF = os.path.dirname(os.path.dirname(os.path.abspath(__file__)))
tier = sys.argv[1] if len(sys.argv) > 1 else "quick"
ids = sys.argv[2:] or sorted(os.path.basename(p) for p in glob.glob(os.path.join(VERIF, "seeded", "*")))
assert subprocess.run(["git", "-C", "/repo", "status", "--porcelain", "--untracked-files=no"], capture_output=True, text=True).stdout.strip() == "", "/repo not clean"
for sid in ids:
    d = os.path.join(VERIF, "seeded", sid)
    meta = json.load(open(os.path.join(d, "meta.json")))
    prop = meta["property"]
    patch = os.path.join(d, "patch.diff")
    r = subprocess.run(["git", "-C", "/repo", "apply", "--check", patch], capture_output=True, text=True)
    if r.returncode != 0:
        print(sid, "PATCH DOES NOT APPLY", r.stderr[:200]); continue
    subprocess.run(["git", "-C", "/repo", "apply", patch], check=True)
    t0 = time.time()
    try:
        p = subprocess.run(["./check", prop, tier], cwd=VERIF, capture_output=True, text=True, timeout=3600)
        out, code = p.stdout + p.stderr, p.returncode
    finally:
        subprocess.run(["git", "-C", "/repo", "checkout", "--", "."], check=True)
    viol = [l for l in out.splitlines() if l.startswith("VIOLATION")]
    keys = [l.split("violated:")[1].split(" model=")[0].strip()[:160] for l in out.splitlines() if "violated:" in l]
    res = {"seed": sid, "property": prop, "tier": tier, "exit": code, "detected": code == 1 and bool(viol),
           "violations": viol[:5], "obligations": keys[:6], "wall_s": round(time.time() - t0, 1)}
    json.dump(res, open(os.path.join(d, f"result_{tier}.json"), "w"), indent=1)
    print(sid, "exit", code, "DETECTED" if res["detected"] else "MISSED", keys[:2], f"{res['wall_s']}s", flush=True)
# evidence files were rewritten by the mutant runs: the caller re-runs the checks on the clean tree
