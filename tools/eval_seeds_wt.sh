#!/bin/bash
# tools/eval_seeds_wt.sh <tier> <seed-id>...: development aid - like eval_seeds.py but
# against a scratch worktree (NANITE_REPO) instead of /repo, so that it can run
# while other checks read /repo.  Results are NOT recorded; the recorded
# result_<tier>.json files come from tools/eval_seeds.py (patch applied to /repo).
TIER=$1; shift
for SID in "$@"; do
  D=/verif/seeded/$SID; WT=/tmp/ev_$SID
  PROP=$(python3 -c "import json;print(json.load(open('$D/meta.json'))['property'])")
  rm -rf $WT; git -C /repo worktree add -q --detach $WT HEAD || exit 2
  cp /repo/src/nanite/_version.py $WT/src/nanite/_version.py
  git -C $WT apply $D/patch.diff || { echo "$SID patch does not apply"; continue; }
  OUT=$(cd /verif && NANITE_REPO=$WT ./check $PROP $TIER 2>&1); CODE=$?
  git -C /repo worktree remove --force $WT
  echo "$SID exit=$CODE $(echo "$OUT" | grep -c '^VIOLATION') violations :: $(echo "$OUT" | grep 'violated:' | head -2 | sed 's/ model=.*//' | cut -c1-150 | tr '\n' '|')"
  echo "$OUT" | grep -E "INCONCLUSIVE|SPURIOUS" | head -3
done
git -C /repo worktree prune
