#!/bin/bash
# tools/run_some.sh <tier> <ID>... : run the given checks sequentially, one summary line each
TIER=$1; shift
cd /verif
for id in "$@"; do
  s=$(date +%s)
  out=$(./check $id $TIER 2>&1); code=$?
  echo "$id $TIER exit=$code $(( $(date +%s) - s ))s :: $(echo "$out" | grep 'paths=\|conditions=' | cut -c1-230)"
  echo "$out" | grep "INCONCL\|violated:\|deadline" | cut -c1-200 | sort | uniq -c | sort -rn | head -6
done
