#!/bin/bash
# tools/verify_seed.sh <seed-id>: confirm in a scratch worktree that the seeded
# change (a) keeps the 176 baseline tests passing, (b) makes demo.py fail,
# and that demo.py passes without it.  Writes seeded/<id>/verified.json
ID=$1
D=/verif/seeded/$ID
WT=/tmp/vs_$ID
rm -rf $WT; git -C /repo worktree add -q --detach $WT HEAD || exit 2
cp /repo/src/nanite/_version.py $WT/src/nanite/_version.py
cd $WT
cp $D/demo.py $WT/demo.py; PYTHONPATH=$WT/src /venv/bin/python $WT/demo.py > /tmp/vs_$ID.clean.log 2>&1; CLEAN=$?
git apply $D/patch.diff || { echo "$ID patch does not apply"; exit 2; }
PYTHONPATH=$WT/src /venv/bin/python $WT/demo.py > /tmp/vs_$ID.mut.log 2>&1; MUT=$?
PYTHONPATH=$WT/src /venv/bin/python -m pytest -q -p no:cacheprovider --timeout=900 -q > /tmp/vs_$ID.test.log 2>&1; TESTS=$?
PASSED=$(grep -o "[0-9]* passed" /tmp/vs_$ID.test.log | tail -1)
WHERE=$(PYTHONPATH=$WT/src /venv/bin/python -c "import nanite; print(nanite.__file__)")
cd /; git -C /repo worktree remove --force $WT
echo "{\"seed\": \"$ID\", \"demo_exit_unchanged\": $CLEAN, \"demo_exit_with_change\": $MUT, \"pytest_exit_with_change\": $TESTS, \"pytest\": \"$PASSED\", \"imported_from\": \"$WHERE\", \"base_commit\": \"$(git -C /repo rev-parse --short HEAD)\"}" > $D/verified.json
cat $D/verified.json
