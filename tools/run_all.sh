#!/bin/bash
# run every registered check (tier = $1, default quick) on the current tree, print a summary line each
TIER=${1:-quick}
cd /verif
for id in $(python3 -c "import json; print(' '.join(c['property_id'] for c in json.load(open('MANIFEST.json'))['checks']))"); do
  s=$(date +%s)
  out=$(./check $id $TIER 2>&1); code=$?
  echo "$id exit=$code $(( $(date +%s) - s ))s $(echo "$out" | grep -c '^VIOLATION') violations $(echo "$out" | grep -c 'KNOWN-FINDING') known"
done
