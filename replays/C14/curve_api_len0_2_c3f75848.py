# replay of a CrossHair counterexample on the real nanite.preproc
import sys, warnings
warnings.filterwarnings("ignore")
sys.path.insert(0, "/verif")
from xh.c14_units import *
r = curve_api_len0_2([], [5, 0])
print('curve_api_len0_2([], [5, 0])', "->", r)
idx = [], [5, 0]
if isinstance(idx, list):
    sel = [IDS[i] for i in idx]
    print("selection:", sel)
    try:
        print("autosort:", preproc.autosort(list(sel)))
    except Exception as e:
        print("autosort raised", type(e).__name__, e)
if r is not True:
    print("REPRODUCED"); sys.exit(1)
sys.exit(0)
