"""C11 - geometrical correction factor rescales the modulus and nothing else."""
from fractions import Fraction as Fr

from symx import core, symnp, symlmfit
from symx.core import (real, assume, prove, witness, implies, check_assumptions,
                       sym_ite, same, is_nan, all_of, any_of)

import specs
from harness import common, fitcommon as fc, c04, c05

ID = "C11"
LEVEL = "other"
LAST_WORLD = None
EXPLANATION = (
    "Bounded symbolic verification. (1) Objective equivalence: for the power-law "
    "models (paraboloid p=3/2, cone and pyramid p=2) the real residual function "
    "called the way _fit calls it (abscissa k*x, contact point k*cp) equals, for "
    "all data, parameters and every k>0, the k=1 residual at modulus E*k^p and "
    "contact point cp - so the two least-squares problems coincide up to the "
    "bijection E<->E*k^p, cp<->cp/k. (2) Glue: on every path of the real "
    "fit_model/_fit with symbolic k the reported contact point is the optimiser's "
    "divided by k, xmin/xmax are measured abscissae and the fit column is the model "
    "at the scaled abscissa (C04 obligations with k symbolic). (3) In every "
    "optimiser call made by one fit - 1 absolute, 4 relative-cp, n+1 plateau - the "
    "initial contact point received is exactly k*cp_user and the caller's parameter "
    "object still holds cp_user afterwards.")
ASSUMPTIONS = fc.STUBS + [
    "scipy.signal.filtfilt contract stub (plateau search)",
    "real arithmetic; k>0; N<=6 (12 plateau)",
    "that MINPACK started from the mapped point reaches the mapped minimiser is outside the claim",
]
BUDGET_S = {"quick": 1200, "thorough": 3400}
QUERY_TIMEOUT_MS = {"quick": 60000, "thorough": 240000}


def bounds(tier):
    return {"objective": "N=3 points, all parameters and k symbolic, models hertz_para/hertz_cone/hertz_pyr3s",
            "glue": "C04 config cone 4+2, k = 1/2" if tier == "quick" else "C04 configs cone 4+2 and para 4+2, k symbolic",
            "initial guess": "absolute (4+2), relative cp (4+2, 4 passes), plateau (12+0, n=2); k symbolic",
            "outside": "optimiser equivariance; doubles"}


def tasks(tier):
    ts = []
    for m in ("hertz_para", "hertz_cone", "hertz_pyr3s"):
        ts.append({"name": f"objective:{m}", "fn": "t_objective", "args": {"model_key": m, "n": 3},
                   "witnesses": ["objective"]})
    # (the weighted fit with symbolic k has one residual obligation that needs
    # 15-60 s of nlsat and is load-dependent at the quick cap: k = 1/2 in the
    # quick tier, symbolic k in the thorough tier; the objective and the
    # initial-guess tasks keep k symbolic in both)
    ts.append({"name": "glue:cone:4+2:k" + ("half" if tier == "quick" else "sym"), "fn": "t_glue",
               "args": {"model_key": "hertz_cone", "layout": "4+2", "segment": 0, "weighting": "on",
                        "kmode": "half" if tier == "quick" else "sym", "vary": ["E", "contact_point"]},
               "witnesses": ["success"]})
    for mode, lay in (("absolute", "4+2"), ("relative cp", "4+2"), ("plateau", "12+0")):
        ts.append({"name": f"init-guess:{mode}", "fn": "t_init",
                   "args": {"mode": mode, "layout": lay, "model_key": "hertz_cone"},
                   "witnesses": ["optimiser-called"] + (["full-scan"] if mode == "plateau" else []), "max_paths": 8000})
    if tier == "thorough":
        ts.append({"name": "glue:para:4+2:ksym", "fn": "t_glue",
                   "args": {"model_key": "hertz_para", "layout": "4+2", "segment": 0, "weighting": "on",
                            "kmode": "sym", "vary": ["E", "contact_point"]},
                   "witnesses": ["success"]})
        ts.append({"name": "init-guess:relative cp:para", "fn": "t_init",
                   "args": {"mode": "relative cp", "layout": "4+2", "model_key": "hertz_para"},
                   "witnesses": ["optimiser-called"], "max_paths": 8000})
    return ts


def t_objective(model_key, n):
    global LAST_WORLD
    w = common.model_world()
    LAST_WORLD = w
    md = w.modules["nanite.model"].models_available[model_key]
    p = common.sym_params(model_key)
    k = real("k")
    assume(k > 0)
    x = [real(f"x{i}") for i in range(n)]
    y = [real(f"y{i}") for i in range(n)]
    check_assumptions()
    pw = specs.POWER[model_key]
    PA = md.get_parameter_defaults()
    PB = md.get_parameter_defaults()
    for nm in p:
        PA[nm].value = p[nm]
        PB[nm].value = p[nm]
    # what _fit hands to the optimiser: abscissa and contact point times k
    PA["contact_point"].value = p["contact_point"] * k
    # the k = 1 problem at the mapped modulus
    PB["E"].value = p["E"] * core.sym_pow(k, pw)
    xa = symnp.SymArr([xi * k for xi in x])
    xb = symnp.SymArr(list(x))
    ya = symnp.SymArr(list(y))
    A = md.residual(PA, xa, ya, 0)
    B = md.residual(PB, xb, symnp.SymArr(list(y)), 0)
    witness("objective")
    for i in range(n):
        prove(f"objective[{i}]", same(A.elems[i], B.elems[i]))
    return {"model": model_key, "p": str(pw)}


def t_glue(**kw):
    global LAST_WORLD
    r = c04.t_fit(**kw)
    LAST_WORLD = c04.LAST_WORLD
    return r


def t_init(mode, layout, model_key):
    global LAST_WORLD
    vary = ["E", "contact_point"] if mode == "absolute" else ["E"]
    w, idnt, x, y, seg, P, init = fc.setup(layout, model_key, vary)
    LAST_WORLD = w
    cap = c05._capture_fitter(w)
    a, b = real("ra"), real("rb")
    k = real("k")
    assume(k > 0)
    check_assumptions()
    cp_user = init["contact_point"]
    state0 = {nm: p.__getstate__() for nm, p in P.items()}
    fitmod = w.modules["nanite.fit"]
    kw = dict(model_key=model_key, params_initial=P, range_x=[a, b], segment=0,
              weight_cp=0, gcf_k=k)
    try:
        if mode == "plateau":
            idnt.fit_model(range_type="absolute", optimal_fit_edelta=True,
                           optimal_fit_num_samples=2, **kw)
        else:
            idnt.fit_model(range_type=mode, **kw)
    except (fitmod.FitDataError, fitmod.FitKeyError, KeyError) as e:
        outcome = f"refused {type(e).__name__}"
    else:
        outcome = "fitted"
    core.count("transitions")
    calls = symlmfit.CALLS
    if calls:
        witness("optimiser-called")
    if mode == "plateau" and calls:
        # the scan of lower range bounds is laid out on the MEASURED axis:
        # bound j = linspace(min x, 0.05 min x, n)[j]; the points handed to
        # scan fit j are the measured samples inside [bound j, max(range_x)],
        # each multiplied by k
        n_scan = 2
        n = len(x)
        xmin = x[0]
        for v in x[1:]:
            xmin = sym_ite(v < xmin, v, xmin)
        hi = sym_ite(a >= b, a, b)
        # (a scan fit with too few points makes no optimiser call: the calls can
        # be attributed to scan fits only when all n+1 were made; the first call
        # is always scan fit 0)
        scan_calls = calls[:n_scan] if len(calls) == n_scan + 1 else calls[:1]
        if len(calls) == n_scan + 1:
            witness("full-scan")
        for j, c in enumerate(scan_calls):
            lo_j = xmin + Fr(j, n_scan - 1) * (xmin * Fr(1, 20) - xmin)
            xa = c["args"][0]
            pres = xa._present_list()
            if len(xa.elems) != n:
                prove(f"scan-points-positional[call {j}]", False, info={"len": len(xa.elems)})
                continue
            for i in range(n):
                want = fc.in_range(x[i], seg[i], 0, lo_j, hi)
                prove(f"scan-range-in-measured-units[call {j}][{i}]", same(pres[i], want))
                prove(f"scan-abscissa-is-k-times-measured[call {j}][{i}]", same(xa.elems[i], x[i] * k))
    for j, c in enumerate(calls):
        st = {s[0]: s for s in c["params_state"]}
        prove(f"initial-cp-in-measured-units[call {j}]",
              same(st["contact_point"][1], cp_user * k))
        prove(f"initial-E-unchanged[call {j}]", same(st["E"][1], init["E"]))
    # the caller's object is as it was
    for nm, p in P.items():
        s1 = p.__getstate__()
        prove(f"caller-params-unchanged[{nm}]",
              all_of([same(u, v) if not isinstance(u, (str, type(None))) or not isinstance(v, (str, type(None)))
                      else u == v for u, v in zip(state0[nm][:6], s1[:6])]))
    return {"mode": mode, "outcome": outcome, "optimiser_calls": len(calls)}


def classify(task, ob):
    nm = ob["name"].split("[")[0]
    return f"{task['fn']}:{nm}"


def replay(task, ob, model):
    a = task["args"]
    g = lambda nm, d=0.0: float(model.get(nm, d))
    if task["fn"] == "t_glue":
        return c04.replay(task, ob, model)
    if task["fn"] == "t_objective":
        key = a["model_key"]
        n = a["n"]
        p = {name: g(name) for name in specs.PARAMS[key]}
        return common.REPLAY_HEAD + f'''
from nanite.model import models_available
md = models_available[{key!r}]
p = {p!r}; k = {g("k", 1.0)!r}; pw = {float(specs.POWER[key])!r}
x = np.array({[g(f"x{i}") for i in range(n)]!r}); y = np.array({[g(f"y{i}") for i in range(n)]!r})
PA = md.get_parameter_defaults(); PB = md.get_parameter_defaults()
for nm, v in p.items():
    PA[nm].value = v; PB[nm].value = v
PA["contact_point"].value = p["contact_point"] * k
PB["E"].value = p["E"] * k ** pw
A = md.residual(PA, x * k, y.copy(), 0)
B = md.residual(PB, x.copy(), y.copy(), 0)
sc = max(np.max(np.abs(A)), np.max(np.abs(B)), 1e-300)
print(A, B)
if not np.allclose(A, B, rtol=1e-9, atol=1e-12 * sc):
    print("REPRODUCED: scaled objective differs from the k=1 objective at E*k^p"); sys.exit(1)
sys.exit(0)
'''
    seg = fc.LAYOUTS[a["layout"]]
    n = len(seg)
    x = [g(f"x{i}") for i in range(n)]
    y = [g(f"y{i}") for i in range(n)]
    init = {kk[5:]: float(v) for kk, v in model.items() if kk.startswith("init_")}
    opts = {}
    for kk, v in model.items():
        if kk.startswith("opt_"):
            _, idx, rest = kk.split("_", 2)
            opts.setdefault(int(idx), {})[rest.split("!")[0]] = float(v)
    filt = [float(v) for kk, v in sorted(model.items()) if kk.startswith("filt!")]
    vary = ["E", "contact_point"] if a["mode"] == "absolute" else ["E"]
    return common.REPLAY_HEAD + f'''
import lmfit, nanite, copy
from nanite import model as nmodel
import nanite.fit as nfit
x = np.array({x!r}); y = np.array({y!r}); seg = np.array({seg!r}, dtype=np.uint8)
k = {g("k", 1.0)!r}; ra, rb = {g("ra")!r}, {g("rb")!r}
opts = {opts!r}; init = {init!r}; vary = {vary!r}; mode = {a["mode"]!r}; filt = {filt!r}
model_key = {a["model_key"]!r}
idnt = nanite.Indentation(data={{"tip position": x.copy(), "force": y.copy(), "segment": seg}},
                          metadata={{"path": "/sym/c.jpk-force", "enum": 0, "point count": len(x),
                                    "imaging mode": "force-distance"}})
P = nmodel.models_available[model_key].get_parameter_defaults()
for nm, p in P.items():
    p.vary = nm in vary
    if nm in init:
        p.value = init[nm]
cp_user = P["contact_point"].value
state0 = {{nm: p.__getstate__()[:6] for nm, p in P.items()}}
seen = []; seen_x = []
def fake_minimize(fcn, params, method="leastsq", args=(), **kw):
    seen.append(params["contact_point"].value)
    seen_x.append(np.array(args[0], copy=True))
    out = copy.deepcopy(params)
    o = opts.get(len(seen) - 1, {{}})
    for nm, p in out.items():
        if p.vary and nm in o:
            p.value = o[nm]
    r = fcn(out, *args)
    class R: pass
    res = R(); res.params = out; res.chisqr = float(np.sum(np.asarray(r)**2)); res.success = True
    return res
nfit.lmfit.minimize = fake_minimize
if filt:
    nfit.spsig.filtfilt = lambda b, a, e: np.array(filt[:len(e)])
kw = dict(model_key=model_key, params_initial=P, range_x=[ra, rb], segment=0, weight_cp=0, gcf_k=k)
try:
    if mode == "plateau":
        idnt.fit_model(range_type="absolute", optimal_fit_edelta=True, optimal_fit_num_samples=2, **kw)
    else:
        idnt.fit_model(range_type=mode, **kw)
except (nfit.FitDataError, nfit.FitKeyError, KeyError) as e:
    print("refused", type(e).__name__)
bad = []
if mode == "plateau" and seen_x:
    xs = x[seg == 0]; xmin = xs.min(); hi = max(ra, rb)
    grid = np.linspace(xmin, xmin * .05, 2)
    for j in (range(2) if len(seen_x) == 3 else range(1)):
        lo = grid[j]
        want = xs * k if lo == hi else xs[(xs >= lo) & (xs <= hi)] * k
        if want.shape != seen_x[j].shape or not np.allclose(want, seen_x[j], rtol=1e-12, atol=0):
            bad.append(f"scan fit {{j}}: optimiser got {{seen_x[j]}} instead of k * measured samples in [{{lo}}, {{hi}}] = {{want}}")
for j, c in enumerate(seen):
    if abs(c - cp_user * k) > 1e-12 * abs(cp_user * k):
        bad.append(f"call {{j}}: initial contact point {{c}} != k*cp_user {{cp_user * k}}")
for nm, p in P.items():
    if p.__getstate__()[:6] != state0[nm]:
        bad.append(f"caller's parameter {{nm}} changed: {{state0[nm]}} -> {{p.__getstate__()[:6]}}")
print(bad)
if bad:
    print("REPRODUCED"); sys.exit(1)
sys.exit(0)
'''
