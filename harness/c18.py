"""C18 - model registry accepts only complete, consistent models and stays consistent."""
import itertools
import types
from fractions import Fraction as Fr

from symx import core, symnp, symlmfit
from symx.core import prove, witness, check_assumptions, real, boolean, assume, same, decide

from harness import common

ID = "C18"
LEVEL = "other"
LAST_WORLD = None
EXPLANATION = (
    "Symbolic execution of the real NaniteFitModel.__init__/_module_check/"
    "_module_autocomplete, logic.register_model/deregister_model/"
    "load_model_from_file and fit.guess_initial_parameters. Model modules are "
    "synthetic objects whose attribute *presence* is a solver Boolean per "
    "attribute (every module with at most two of the 15 attributes deleted is covered by "
    "path exploration, hence every single-fault mutant), with concrete list-consistency mutants (length "
    "mismatches, duplicate names, defaults out of order). Shown on every path: "
    "accepted iff an independently written well-formedness predicate holds; "
    "rejection raises a ModelError subclass and leaves the registry unchanged; "
    "acceptance adds exactly the key with default wrappers unless the module "
    "brings its own; register/deregister histories (k<=3) track a set model; "
    "load_model_from_file with the import stubbed as {module, "
    "ModuleNotFoundError, other error} and the directory possibly already on "
    "sys.path raises the documented ModelImportError and leaves sys.path and "
    "sys.dont_write_bytecode as they were; ancillary values (symbolic reals / "
    "NaN) seed exactly the parameters whose key they match.")
ASSUMPTIONS = [
    "the import machinery is a model over a small file system: import_module follows Python's rules (sys.modules cache, then sys.path in order), spec_from_file_location/module_from_spec/exec_module load the given file; file contents are module objects or raise; sys is a stand-in object with a path list, a module cache and the dont_write_bytecode flag",
    "model_func bodies are irrelevant here (C02/C13)",
    "parameter lists of length 3; attribute values concrete, presence symbolic",
]
BUDGET_S = {"quick": 600, "thorough": 1800}
QUERY_TIMEOUT_MS = {"quick": 30000, "thorough": 60000}

REQUIRED = ["get_parameter_defaults", "model_doc", "model_key", "model_name", "parameter_keys",
            "parameter_names", "parameter_units", "valid_axes_x", "valid_axes_y"]
ANC = ["parameter_anc_keys", "parameter_anc_names", "parameter_anc_units"]
OPTIONAL = ["compute_ancillaries", "model", "residual"]
LIST_MUTANTS = ["ok", "names-short", "units-long", "names-duplicate", "defaults-out-of-order", "keys-renamed",
                "defaults-short", "defaults-long"]


def bounds(tier):
    return {"attribute presence": "symbolic: every subset of the %d attributes with at most 2 (thorough: 3) missing (all single- and double-fault mutants)" % len(REQUIRED + ANC + OPTIONAL),
            "list mutants": LIST_MUTANTS, "histories": "k<=3 register/deregister over 2 models",
            "import outcomes": ["module", "ModuleNotFoundError", "ValueError"],
            "sys.path": ["dir absent", "dir already present (first/last)"]}


def tasks(tier):
    ts = [{"name": "presence", "fn": "t_presence", "args": {"max_missing": 2 if tier == "quick" else 3},
           "max_paths": 20000, "witnesses": ["accepted", "rejected"]}]
    for m in LIST_MUTANTS:
        ts.append({"name": f"lists:{m}", "fn": "t_lists", "args": {"mutant": m}})
    for hist in itertools.product(["regA", "regB", "deregA", "deregB", "regBad", "regBadA", "regBadShipped"],
                                  repeat=3 if tier == "thorough" else 2):
        ts.append({"name": "hist:" + ">".join(hist), "fn": "t_history", "args": {"hist": list(hist)}})
    for outcome in ("module", "ModuleNotFoundError", "ValueError", "bad-module"):
        for path_state in ("absent", "present-first", "present-last"):
            for reg in (False, True):
                ts.append({"name": f"load:{outcome}:{path_state}:register={reg}", "fn": "t_load",
                           "args": {"outcome": outcome, "path_state": path_state, "register": reg}})
    for sc in ("same-name-in-two-directories", "reload-after-edit", "name-shadowed-by-an-importable-module",
               "name-cached-in-sys.modules"):
        ts.append({"name": f"load-files:{sc}", "fn": "t_load_files", "args": {"scenario": sc}, "witnesses": ["load"]})
    for pat in ("value", "nan", "missing-key"):
        ts.append({"name": f"ancillary:{pat}", "fn": "t_anc", "args": {"pattern": pat}})
    return ts


class SymModule:
    """Module-like object whose attributes exist iff a solver Boolean is true."""

    def __init__(self, attrs, presence, name="m"):
        object.__setattr__(self, "_attrs", dict(attrs))
        object.__setattr__(self, "_presence", dict(presence))
        object.__setattr__(self, "_set", {})
        object.__setattr__(self, "__name__", name)

    def __getattr__(self, name):
        s = object.__getattribute__(self, "_set")
        if name in s:
            return s[name]
        a = object.__getattribute__(self, "_attrs")
        p = object.__getattribute__(self, "_presence")
        if name in a and decide(p.get(name, True)):
            return a[name]
        raise AttributeError(name)

    def __setattr__(self, name, value):
        object.__getattribute__(self, "_set")[name] = value

    def __repr__(self):
        return "<SymModule>"


def _model_func(delta, E, contact_point=0, baseline=0):
    return delta


def _attrs(key="user_a", lists="ok", with_anc=True):
    def gpd():
        P = symlmfit.Parameters()
        order = ["E", "contact_point", "baseline"]
        if lists == "defaults-out-of-order":
            order = ["contact_point", "E", "baseline"]
        elif lists == "defaults-short":
            order = ["E", "contact_point"]
        elif lists == "defaults-long":
            order = ["E", "contact_point", "baseline", "extra"]
        for nm in order:
            P.add(nm, value=1, min=0 if nm == "E" else -symlmfit.inf)
        return P
    keys = ["E", "contact_point", "baseline"]
    names = ["Young's Modulus", "Contact Point", "Force Baseline"]
    units = ["Pa", "m", "N"]
    if lists == "names-short":
        names = names[:2]
    elif lists == "units-long":
        units = units + ["x"]
    elif lists == "names-duplicate":
        names = ["A", "A", "B"]
    elif lists == "keys-renamed":
        keys = ["E", "cp", "baseline"]
    a = {"get_parameter_defaults": gpd, "model_doc": "doc", "model_func": _model_func, "model_key": key,
         "model_name": "user model " + key, "parameter_keys": keys, "parameter_names": names,
         "parameter_units": units, "valid_axes_x": ["tip position"], "valid_axes_y": ["force"]}
    if with_anc:
        a.update({"compute_ancillaries": lambda fd: {"anc_a": 1}, "parameter_anc_keys": ["anc_a"],
                  "parameter_anc_names": ["Anc A"], "parameter_anc_units": ["N"]})
    a["model"] = lambda params, delta: "own-model"
    a["residual"] = lambda params, delta, force, weight_cp=0: "own-residual"
    return a


def well_formed(present, lists):
    """Independent statement of what must be accepted."""
    if not all(present[a] for a in REQUIRED):
        return False
    if present["compute_ancillaries"] and not all(present[a] for a in ANC):
        return False
    return lists == "ok"


def _world():
    global LAST_WORLD
    w = common.model_world()
    LAST_WORLD = w
    return w, w.modules["nanite.model"], w.modules["nanite.model.core"], w.modules["nanite.model.logic"]


def t_presence(max_missing=2):
    w, nm, cmod, logic = _world()
    names = REQUIRED + ANC + OPTIONAL
    pres = {a: boolean("has_" + a) for a in names}
    # every module with at most two attributes deleted (all single- and
    # double-fault mutants of the complete module)
    missing = 0
    for a in names:
        missing = missing + core.sym_ite(pres[a], 0, 1)
    assume(missing <= max_missing)
    check_assumptions()
    mod = SymModule(_attrs(), pres)
    before = dict(nm.models_available)
    try:
        md = nm.register_model(mod)
        err = None
    except cmod.ModelError as e:
        err = e
    except Exception as e:   # noqa: BLE001
        core.violated("rejection-raises-a-model-error", info={"exception": repr(e)[:200]})
        return {"raised": repr(e)[:200]}
    conc = {a: decide(pres[a]) for a in names}
    wf = well_formed(conc, "ok")
    prove("accepted-iff-well-formed", (err is None) == wf, info={"present": conc, "error": repr(err)[:200]})
    if err is not None:
        witness("rejected")
        prove("rejection-leaves-registry-unchanged", dict(nm.models_available) == before)
    else:
        witness("accepted")
        prove("registered-under-key", set(nm.models_available) == set(before) | {"user_a"}
              and nm.models_available["user_a"] is md)
        own_model = conc["model"]
        own_resid = conc["residual"]
        prove("model-wrapper", (md.model(None, None) == "own-model") if own_model
              else md.model.__name__ == "default_modeling_wrapper")
        prove("residual-wrapper", (md.residual(None, None, None) == "own-residual") if own_resid
              else md.residual.__name__ == "default_residuals_wrapper")
        keys = md.get_anc_parm_keys()
        prove("ancillary-keys", keys == ["max_indent"] + (["anc_a"] if conc["compute_ancillaries"] else []))
        prove("names-and-units", md.get_parm_name("E") == "Young's Modulus" and md.get_parm_unit("contact_point") == "m")
        nm.deregister_model(md)
        prove("deregister-removes-exactly-the-key", dict(nm.models_available) == before)
    return {"present": [a for a in names if conc[a]], "accepted": err is None}


def t_lists(mutant):
    w, nm, cmod, logic = _world()
    mod = SymModule(_attrs(lists=mutant), {})
    before = dict(nm.models_available)
    import warnings
    with warnings.catch_warnings(record=True) as wl:
        warnings.simplefilter("always")
        try:
            nm.register_model(mod)
            err = None
        except cmod.ModelError as e:
            err = e
        except Exception as e:   # noqa: BLE001
            core.violated("rejection-raises-a-model-error", info={"exception": repr(e)[:200], "mutant": mutant})
            return {"raised": repr(e)[:200]}
    if mutant == "ok":
        prove("consistent-lists-accepted", err is None)
    else:
        prove("inconsistent-lists-rejected", err is not None, info={"mutant": mutant})
        prove("rejection-leaves-registry-unchanged", dict(nm.models_available) == before)
    witness("lists")
    return {"mutant": mutant, "error": repr(err)[:120]}


def t_history(hist):
    w, nm, cmod, logic = _world()
    base = set(nm.models_available)
    mods = {"A": SymModule(_attrs("user_a"), {}), "B": SymModule(_attrs("user_b", with_anc=False), {}),
            "Bad": SymModule(_attrs("user_bad", lists="names-short"), {}),
            # faulty modules that carry the key of a model that may be registered
            # (an edited copy of a user model / of a shipped model)
            "BadA": SymModule(_attrs("user_a", lists="names-short"), {}),
            "BadShipped": SymModule(_attrs("hertz_para", lists="units-long"), {})}
    objs = {}
    expect = set()
    base_objs = dict(nm.models_available)
    for op in hist:
        core.count("transitions")
        if op.startswith("reg"):
            k = op[3:]
            try:
                md = nm.register_model(mods[k])
                objs[k] = md
                expect.add(mods[k].model_key)
                prove(f"{op}:accepted", not k.startswith("Bad"))
            except cmod.ModelError:
                prove(f"{op}:rejected", k.startswith("Bad"))
        else:
            k = op[5:]
            try:
                nm.deregister_model(objs[k] if k in objs else mods[k])
                prove(f"{op}:was-registered", mods[k].model_key in expect)
                expect.discard(mods[k].model_key)
            except KeyError:
                prove(f"{op}:was-not-registered", mods[k].model_key not in expect)
        prove(f"registry-tracks-set-model after {op}", set(nm.models_available) == base | expect)
        prove(f"shipped-models-untouched after {op}",
              all(nm.models_available.get(key) is obj for key, obj in base_objs.items()))
        prove(f"registered-objects-kept after {op}",
              all(nm.models_available.get(mods[k].model_key) is objs[k] for k in objs
                  if mods[k].model_key in expect))
    return {"history": hist, "final": sorted(expect)}


class _Proxy:
    """Module object created by importlib.util.module_from_spec: empty until executed."""
    def __init__(self, spec):
        object.__setattr__(self, "_spec", spec)
        object.__setattr__(self, "_target", None)

    def __getattr__(self, name):
        t = object.__getattribute__(self, "_target")
        if t is None:
            raise AttributeError(name)
        return getattr(t, name)

    def __setattr__(self, name, value):
        setattr(object.__getattribute__(self, "_target"), name, value)


def fake_importlib(fake_sys, files, seen):
    """Model of the interpreter's import machinery over a file system
    `files`: path -> zero-argument function that executes the file's code and
    returns the module contents (or raises).  import_module follows Python's
    rules (sys.modules cache first, then the sys.path entries in order);
    spec_from_file_location/module_from_spec/exec_module load one given file
    and do not touch the cache."""
    if not hasattr(fake_sys, "modules"):
        fake_sys.modules = {}

    def import_module(name):
        seen["path_during_import"] = list(fake_sys.path)
        seen["name"] = name
        if name in fake_sys.modules:
            return fake_sys.modules[name]
        for d in fake_sys.path:
            f = f"{d}/{name}.py"
            if f in files:
                m = files[f]()
                fake_sys.modules[name] = m
                return m
        raise ModuleNotFoundError(name)

    class _Loader:
        def __init__(self, origin):
            self.origin = origin

        def exec_module(self, module):
            seen["path_during_import"] = list(fake_sys.path)
            if self.origin not in files:
                raise FileNotFoundError(self.origin)
            object.__setattr__(module, "_target", files[self.origin]())

    def spec_from_file_location(name, location=None, **k):
        seen["name"] = name
        loc = str(location)
        if not loc.endswith(".py"):
            return None
        return types.SimpleNamespace(name=name, origin=loc, loader=_Loader(loc))

    util = types.SimpleNamespace(spec_from_file_location=spec_from_file_location,
                                 module_from_spec=lambda spec: _Proxy(spec))
    return types.SimpleNamespace(import_module=import_module, util=util)


def t_load(outcome, path_state, register):
    w, nm, cmod, logic = _world()
    good = SymModule(_attrs("user_file"), {})
    bad = SymModule(_attrs("user_file_bad", lists="names-short"), {})
    d = "/models/dir"
    other = ["/a", "/b", "/c"]
    path0 = {"absent": list(other), "present-first": [d] + other, "present-last": other + [d]}[path_state]
    fake_sys = types.SimpleNamespace(path=list(path0), dont_write_bytecode=boolean("dwb"))
    dwb0 = fake_sys.dont_write_bytecode
    seen = {}

    def content():
        if outcome == "module":
            return good
        if outcome == "bad-module":
            return bad
        raise ValueError("syntax problem in user file")
    files = {} if outcome == "ModuleNotFoundError" else {d + "/my_model.py": content}
    logic.importlib = fake_importlib(fake_sys, files, seen)
    logic.sys = fake_sys
    before = dict(nm.models_available)
    check_assumptions()
    try:
        md = logic.load_model_from_file(d + "/my_model.py", register=register)
        err = None
    except BaseException as e:   # noqa: BLE001
        err = e
    prove("directory-importable-during-import", d in seen.get("path_during_import", []) and seen.get("name") == "my_model")
    prove("sys.path-restored", fake_sys.path == path0, info={"before": path0, "after": list(fake_sys.path)})
    prove("dont_write_bytecode-restored", same(fake_sys.dont_write_bytecode, dwb0),
          info={"after": repr(fake_sys.dont_write_bytecode)})
    if outcome == "module":
        prove("returns-model", err is None and md.model_key == "user_file", info={"error": repr(err)[:200]})
        prove("registered-iff-asked", ("user_file" in nm.models_available) == register)
    elif outcome == "ModuleNotFoundError":
        prove("documented-import-error", isinstance(err, cmod.ModelImportError), info={"error": repr(err)[:200]})
        prove("registry-unchanged", dict(nm.models_available) == before)
    elif outcome == "bad-module":
        prove("invalid-module-rejected-with-model-error", isinstance(err, cmod.ModelError), info={"error": repr(err)[:200]})
        prove("registry-unchanged", dict(nm.models_available) == before)
    else:
        prove("other-import-errors-propagate", isinstance(err, ValueError), info={"error": repr(err)[:200]})
        prove("registry-unchanged", dict(nm.models_available) == before)
    witness("load")
    return {"outcome": outcome, "error": repr(err)[:120]}


def t_load_files(scenario):
    """A model loaded from a file is that file's code: whatever else is
    importable or cached under the same module name."""
    w, nm, cmod, logic = _world()
    A = lambda: SymModule(_attrs("model_a"), {})
    B = lambda: SymModule(_attrs("model_b"), {})
    other = ["/a", "/b"]
    fake_sys = types.SimpleNamespace(path=list(other), dont_write_bytecode=boolean("dwb"), modules={})
    seen = {}
    files = {}
    logic.importlib = fake_importlib(fake_sys, files, seen)
    logic.sys = fake_sys
    check_assumptions()
    path0 = list(fake_sys.path)
    if scenario == "same-name-in-two-directories":
        files["/models/one/my_model.py"] = A
        files["/models/two/my_model.py"] = B
        m1 = logic.load_model_from_file("/models/one/my_model.py", register=False)
        m2 = logic.load_model_from_file("/models/two/my_model.py", register=False)
        prove("first-file-gives-its-model", m1.model_key == "model_a")
        prove("second-file-gives-its-own-model", m2.model_key == "model_b", info={"got": m2.model_key})
    elif scenario == "reload-after-edit":
        files["/models/one/my_model.py"] = A
        m1 = logic.load_model_from_file("/models/one/my_model.py", register=False)
        files["/models/one/my_model.py"] = B        # the developer edits the file
        m2 = logic.load_model_from_file("/models/one/my_model.py", register=False)
        prove("first-file-gives-its-model", m1.model_key == "model_a")
        prove("edited-file-gives-the-edited-model", m2.model_key == "model_b", info={"got": m2.model_key})
    elif scenario == "name-shadowed-by-an-importable-module":
        files["/a/my_model.py"] = A                  # something else of that name on sys.path
        files["/models/two/my_model.py"] = B
        m2 = logic.load_model_from_file("/models/two/my_model.py", register=False)
        prove("file-wins-over-importable-module-of-the-same-name", m2.model_key == "model_b", info={"got": m2.model_key})
    else:
        fake_sys.modules["my_model"] = A()           # a module of that name is already imported
        files["/models/two/my_model.py"] = B
        m2 = logic.load_model_from_file("/models/two/my_model.py", register=False)
        prove("file-wins-over-cached-module-of-the-same-name", m2.model_key == "model_b", info={"got": m2.model_key})
    prove("sys.path-restored", fake_sys.path == path0)
    witness("load")
    return {"scenario": scenario}


def t_anc(pattern):
    """guess_initial_parameters: ancillaries whose key matches a parameter
    seed its initial value unless NaN; everything else keeps defaults."""
    w, nm, cmod, logic = _world()
    fit = w.load("nanite.fit")
    v = real("anc_value")
    anc = {"max_indent": real("mi"), "E": v if pattern != "nan" else float("nan"), "unrelated": real("u")}
    if pattern == "missing-key":
        anc.pop("E")

    class FD:
        def __contains__(self, k):
            return False

        def get_ancillary_parameters(self):
            return anc
    md = nm.models_available["hertz_para"]
    defaults = {k: p.value for k, p in md.get_parameter_defaults().items()}
    check_assumptions()
    import warnings
    with warnings.catch_warnings():
        warnings.simplefilter("ignore")
        P = fit.guess_initial_parameters(idnt=FD(), model_key="hertz_para")
    for k, p in P.items():
        if k == "E" and pattern == "value":
            # E has the lower bound 0: lmfit clips on assignment
            prove("matching-ancillary-seeds-parameter", same(p.value, core.sym_ite(v < 0, 0, v)))
        else:
            prove(f"others-keep-defaults[{k}]", same(p.value, defaults[k]))
    witness("anc")
    return {"pattern": pattern}


def classify(task, ob):
    return f"{task['fn']}:{ob['name'].split('[')[0].split(' after ')[0]}"


def replay(task, ob, model):
    a = task["args"]
    if task["fn"] == "t_load":
        return common.REPLAY_HEAD + f'''
import sys as _sys, tempfile, pathlib, shutil, os
import nanite.model as nm
from nanite.model import core as cmod, logic
outcome = {a["outcome"]!r}; path_state = {a["path_state"]!r}; register = {a["register"]!r}
tdir = pathlib.Path(tempfile.mkdtemp(prefix="c18_"))
src = pathlib.Path(nm.__file__).parent / "model_hertz_paraboloidal.py"
text = src.read_text().replace('model_key = "hertz_para"', 'model_key = "user_file"')
if outcome == "bad-module":
    text = text.replace('parameter_units = ["Pa", "m", "", "m", "N"]', 'parameter_units = ["Pa", "m"]')
if outcome == "ValueError":
    text = "raise ValueError('problem in user file')\\n"
fname = "c18_user_model_%d.py" % os.getpid()
if outcome != "ModuleNotFoundError":
    (tdir / fname).write_text(text)
d = str(tdir)
if path_state == "present-first": _sys.path.insert(0, d)
if path_state == "present-last": _sys.path.append(d)
path0 = list(_sys.path); dwb0 = _sys.dont_write_bytecode
before = set(nm.models_available)
err = None
try:
    md = logic.load_model_from_file(tdir / fname, register=register)
except BaseException as e:
    err = e
bad = []
if list(_sys.path) != path0: bad.append("sys.path changed: first differing index %s" % [i for i, (u, v) in enumerate(zip(_sys.path + [None], path0 + [None])) if u != v][:1])
if _sys.dont_write_bytecode != dwb0: bad.append("sys.dont_write_bytecode changed %r -> %r" % (dwb0, _sys.dont_write_bytecode))
if outcome == "ModuleNotFoundError" and not isinstance(err, cmod.ModelImportError): bad.append("missing file raised %r" % (err,))
if outcome == "bad-module" and not isinstance(err, cmod.ModelError): bad.append("invalid module raised %r" % (err,))
if outcome == "ValueError" and not isinstance(err, ValueError): bad.append("import error did not propagate: %r" % (err,))
if outcome == "module" and (err is not None or ("user_file" in nm.models_available) != register): bad.append("load/registration: %r" % (err,))
if outcome != "module" and set(nm.models_available) != before: bad.append("registry changed")
shutil.rmtree(tdir, ignore_errors=True)
print({ob["name"]!r}, bad)
if bad:
    print("REPRODUCED"); sys.exit(1)
sys.exit(0)
'''
    if task["fn"] == "t_load_files":
        return common.REPLAY_HEAD + f'''
import sys as _sys, tempfile, pathlib, shutil, os, types
import nanite.model as nm
from nanite.model import logic
scenario = {a["scenario"]!r}
tdir = pathlib.Path(tempfile.mkdtemp(prefix="c18_"))
src = pathlib.Path(nm.__file__).parent / "model_hertz_paraboloidal.py"
def text(key): return src.read_text().replace('model_key = "hertz_para"', 'model_key = "%s"' % key)
stem = "c18_files_model_%d" % os.getpid()
(tdir / "one").mkdir(); (tdir / "two").mkdir(); (tdir / "a").mkdir()
f1 = tdir / "one" / (stem + ".py"); f2 = tdir / "two" / (stem + ".py")
path0 = list(_sys.path); bad = []
try:
    if scenario == "same-name-in-two-directories":
        f1.write_text(text("model_a")); f2.write_text(text("model_b"))
        m1 = logic.load_model_from_file(f1); m2 = logic.load_model_from_file(f2)
        if m1.model_key != "model_a": bad.append("first file gave %r" % m1.model_key)
        if m2.model_key != "model_b": bad.append("second file gave the model %r of the first file" % m2.model_key)
    elif scenario == "reload-after-edit":
        f1.write_text(text("model_a")); m1 = logic.load_model_from_file(f1)
        f1.write_text(text("model_b")); os.utime(f1, (1, 1)); m2 = logic.load_model_from_file(f1)
        if m2.model_key != "model_b": bad.append("edited file gave the old model %r" % m2.model_key)
    elif scenario == "name-shadowed-by-an-importable-module":
        (tdir / "a" / (stem + ".py")).write_text(text("model_a")); _sys.path.insert(0, str(tdir / "a")); path0 = list(_sys.path)
        f2.write_text(text("model_b")); m2 = logic.load_model_from_file(f2)
        if m2.model_key != "model_b": bad.append("file gave the importable module's model %r" % m2.model_key)
    else:
        cached = types.ModuleType(stem); exec(text("model_a"), cached.__dict__); _sys.modules[stem] = cached
        f2.write_text(text("model_b")); m2 = logic.load_model_from_file(f2)
        if m2.model_key != "model_b": bad.append("file gave the cached module's model %r" % m2.model_key)
    if list(_sys.path) != path0: bad.append("sys.path changed")
except Exception as e:
    bad.append("raised %r" % (e,))
shutil.rmtree(tdir, ignore_errors=True)
print({ob["name"]!r}, bad)
if bad:
    print("REPRODUCED"); sys.exit(1)
sys.exit(0)
'''
    if task["fn"] == "t_anc":
        v = float(model.get("anc_value", 0))
        return common.REPLAY_HEAD + f'''
import warnings, nanite.fit as nfit
from nanite.model import models_available
pattern = {a["pattern"]!r}; v = {v!r}
anc = {{"max_indent": 1e-6, "E": (v if pattern != "nan" else np.nan), "unrelated": 3.0}}
if pattern == "missing-key": anc.pop("E")
class FD:
    def __contains__(self, k): return False
    def get_ancillary_parameters(self): return anc
defaults = {{k: p.value for k, p in models_available["hertz_para"].get_parameter_defaults().items()}}
with warnings.catch_warnings():
    warnings.simplefilter("ignore")
    P = nfit.guess_initial_parameters(idnt=FD(), model_key="hertz_para")
bad = []
for k, p in P.items():
    want = max(v, 0.0) if (k == "E" and pattern == "value") else defaults[k]
    if p.value != want: bad.append("%s: %r instead of %r" % (k, p.value, want))
print("ancillary E =", anc.get("E"), "->", bad)
if bad:
    print("REPRODUCED"); sys.exit(1)
sys.exit(0)
'''
    if task["fn"] == "t_history":
        return common.REPLAY_HEAD + f'''
import types, lmfit, warnings
import nanite.model as nm
from nanite.model import core as cmod
hist = {a["hist"]!r}
def make(key, lists="ok", with_anc=True):
    def gpd():
        P = lmfit.Parameters()
        for k in ["E", "contact_point", "baseline"]: P.add(k, value=1)
        return P
    def mf(delta, E, contact_point=0, baseline=0): return delta
    names = ["Young's Modulus", "Contact Point", "Force Baseline"]; units = ["Pa", "m", "N"]
    if lists == "names-short": names = names[:2]
    if lists == "units-long": units = units + ["x"]
    mod = types.ModuleType(key)
    attrs = {{"get_parameter_defaults": gpd, "model_doc": "doc", "model_func": mf, "model_key": key, "model_name": "user model " + key,
             "parameter_keys": ["E", "contact_point", "baseline"], "parameter_names": names, "parameter_units": units,
             "valid_axes_x": ["tip position"], "valid_axes_y": ["force"]}}
    if with_anc:
        attrs.update({{"compute_ancillaries": lambda fd: {{"anc_a": 1}}, "parameter_anc_keys": ["anc_a"],
                      "parameter_anc_names": ["Anc A"], "parameter_anc_units": ["N"]}})
    for k, v in attrs.items(): setattr(mod, k, v)
    return mod
mods = {{"A": make("user_a"), "B": make("user_b", with_anc=False), "Bad": make("user_bad", "names-short"),
        "BadA": make("user_a", "names-short"), "BadShipped": make("hertz_para", "units-long")}}
base_objs = dict(nm.models_available); base = set(base_objs)
objs = {{}}; expect = set(); bad = []
with warnings.catch_warnings():
    warnings.simplefilter("ignore")
    for op in hist:
        if op.startswith("reg"):
            k = op[3:]
            try:
                objs[k] = nm.register_model(mods[k]); expect.add(mods[k].model_key)
                if k.startswith("Bad"): bad.append(op + ": faulty module accepted")
            except cmod.ModelError:
                if not k.startswith("Bad"): bad.append(op + ": valid module rejected")
        else:
            k = op[5:]
            try:
                nm.deregister_model(objs[k] if k in objs else mods[k])
                if mods[k].model_key not in expect: bad.append(op + ": deregistered a model that was not registered")
                expect.discard(mods[k].model_key)
            except KeyError:
                if mods[k].model_key in expect: bad.append(op + ": registered model not found")
        if set(nm.models_available) != base | expect:
            bad.append("after %s: registry has %s, expected %s" % (op, sorted(set(nm.models_available) - base), sorted(expect)))
        if not all(nm.models_available.get(key) is obj for key, obj in base_objs.items()):
            bad.append("after %s: a shipped model was replaced or removed" % op)
        if not all(nm.models_available.get(mods[k].model_key) is objs[k] for k in objs if mods[k].model_key in expect):
            bad.append("after %s: a registered model object was replaced" % op)
for key in list(nm.models_available):
    if key not in base: nm.models_available.pop(key)
print({ob["name"]!r}, bad)
if bad:
    print("REPRODUCED"); sys.exit(1)
sys.exit(0)
'''
    model = {k: v for k, v in model.items() if isinstance(v, bool)}
    return common.REPLAY_HEAD + f'''
import types, lmfit, warnings
import nanite.model as nm
from nanite.model import core as cmod
present = {model!r}
REQUIRED = {REQUIRED!r}; ANC = {ANC!r}; OPTIONAL = {OPTIONAL!r}
mutant = {a.get("mutant", "ok")!r}
def gpd():
    P = lmfit.Parameters()
    order = ["E", "contact_point", "baseline"]
    if mutant == "defaults-out-of-order": order = ["contact_point", "E", "baseline"]
    if mutant == "defaults-short": order = ["E", "contact_point"]
    if mutant == "defaults-long": order = ["E", "contact_point", "baseline", "extra"]
    for k in order: P.add(k, value=1)
    return P
def mf(delta, E, contact_point=0, baseline=0): return delta
keys = ["E", "contact_point", "baseline"]; names = ["Young's Modulus", "Contact Point", "Force Baseline"]; units = ["Pa", "m", "N"]
if mutant == "names-short": names = names[:2]
if mutant == "units-long": units = units + ["x"]
if mutant == "names-duplicate": names = ["A", "A", "B"]
if mutant == "keys-renamed": keys = ["E", "cp", "baseline"]
attrs = {{"get_parameter_defaults": gpd, "model_doc": "doc", "model_func": mf, "model_key": "user_a", "model_name": "n",
         "parameter_keys": keys, "parameter_names": names, "parameter_units": units,
         "valid_axes_x": ["tip position"], "valid_axes_y": ["force"],
         "compute_ancillaries": lambda fd: {{"anc_a": 1}}, "parameter_anc_keys": ["anc_a"], "parameter_anc_names": ["Anc A"],
         "parameter_anc_units": ["N"], "model": lambda p, d: "own", "residual": lambda p, d, f, w=0: "own"}}
mod = types.ModuleType("user_a")
for k, v in attrs.items():
    if present.get("has_" + k, True):
        setattr(mod, k, v)
has = lambda k: present.get("has_" + k, True)
wf = all(has(k) for k in REQUIRED) and (not has("compute_ancillaries") or all(has(k) for k in ANC)) and mutant == "ok"
before = dict(nm.models_available)
err = None
with warnings.catch_warnings():
    warnings.simplefilter("ignore")
    try:
        md = nm.register_model(mod)
    except cmod.ModelError as e:
        err = e
    except Exception as e:
        print("REPRODUCED: rejection raised a non-model error", repr(e)); sys.exit(1)
bad = []
if (err is None) != wf: bad.append("accepted=%s but well-formed=%s" % (err is None, wf))
if err is not None and dict(nm.models_available) != before: bad.append("registry changed by a rejected model")
print({ob["name"]!r}, bad)
if bad:
    print("REPRODUCED"); sys.exit(1)
sys.exit(0)
'''
