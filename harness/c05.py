"""C05 - exactly the requested points are fitted."""
from fractions import Fraction as Fr

from symx import core, symnp, symlmfit
from symx.core import (real, assume, prove, witness, implies, check_assumptions,
                       sym_ite, same, is_nan, all_of, any_of)

import specs
from harness import common, fitcommon as fc, c04

ID = "C05"
LEVEL = "other"
LAST_WORLD = None
EXPLANATION = (
    "Bounded symbolic verification of the point selection in the real "
    "IndentationFitter.fit/_fit/compute_emodulus_vs_mindelta/compute_opt_mindelta "
    "driven through Indentation.fit_model. The abscissa vector received by the "
    "(stub) optimiser in every pass is compared by z3 with the specification: "
    "k*x_i for exactly the samples of the requested segment with min(a,b)<=x_i<="
    "max(a,b) (whole segment when a==b); for 'relative cp' pass j+1 uses "
    "[cp_j+a, cp_j+b] with cp_j the contact point reported by pass j in measured "
    "units and the fitter's range attributes are restored; for the plateau "
    "search the scan grid is linspace(xmin, 0.05*xmin, n), scan fit i uses "
    "[grid_i, max(range_x)], the final fit starts at the reported optimum which "
    "lies inside the grid. xmin/xmax are the extreme measured abscissae used.")
ASSUMPTIONS = fc.STUBS + [
    "scipy.signal.butter/filtfilt are contract stubs (arbitrary array of the input's length): the plateau labelling loop is executed for real on that arbitrary array",
    "real arithmetic; N<=6 samples (12-14 for the plateau search); plateau search with 2 scan samples",
    "'at convergence' clauses (what the optimiser returns) are outside: contact points per pass are arbitrary reals",
]
BUDGET_S = {"quick": 1200, "thorough": 3400}
QUERY_TIMEOUT_MS = {"quick": 60000, "thorough": 240000}


def bounds(tier):
    return {"absolute": "as C04 configs (cone 4+2 k symbolic; para 3+3 retract)",
            "relative cp": "layout 4+2, vary E, 4 passes, k=1/2 (thorough: also k symbolic)",
            "plateau": "layout 12+0 (the trend test needs >10 points), 2 scan samples (thorough: also 12+2 with k=1/2; 3 scan samples did not close within 50 min on 16 cores)",
            "outside": "longer curves; optimiser convergence; Butterworth numerics"}


def tasks(tier):
    ts = [
        {"name": "abs:cone:4+2:ksym", "fn": "t_abs",
         "args": {"model_key": "hertz_cone", "layout": "4+2", "segment": 0, "weighting": "off",
                  "kmode": "sym", "vary": ["E", "contact_point"]},
         "witnesses": ["success", "too_few_points"]},
        {"name": "abs:para:3+3:retract", "fn": "t_abs",
         "args": {"model_key": "hertz_para", "layout": "3+3", "segment": 1, "weighting": "on",
                  "kmode": "half", "vary": ["E"]},
         "witnesses": ["success", "too_few_points"]},
        {"name": "relcp:cone:4+2:khalf", "fn": "t_relcp",
         "args": {"model_key": "hertz_cone", "layout": "4+2", "kmode": "half", "vary": ["E"]},
         "witnesses": ["four-passes", "later-pass-too-few-points"], "max_paths": 6000},
        {"name": "plateau:cone:12+0:n2", "fn": "t_plateau",
         "args": {"model_key": "hertz_cone", "layout": "12+0", "nsamp": 2, "kmode": "one"},
         "witnesses": ["plateau-done"], "max_paths": 6000},
    ]
    if tier == "thorough":
        ts += [
            {"name": "relcp:cone:4+2:ksym", "fn": "t_relcp",
             "args": {"model_key": "hertz_cone", "layout": "4+2", "kmode": "sym", "vary": ["E"]},
             "witnesses": ["four-passes", "later-pass-too-few-points"], "max_paths": 6000},
            {"name": "plateau:cone:12+2:n2", "fn": "t_plateau",
             "args": {"model_key": "hertz_cone", "layout": "12+2", "nsamp": 2, "kmode": "half"},
             "witnesses": ["plateau-done"], "max_paths": 20000},
        ]
    return ts


def t_abs(**kw):
    global LAST_WORLD
    r = c04.t_fit(**kw)
    LAST_WORLD = c04.LAST_WORLD
    return r


def _k(kmode):
    if kmode == "sym":
        k = real("k")
        assume(k > 0)
        return k
    return {"half": Fr(1, 2), "one": 1}[kmode]


def _capture_fitter(w):
    """Observe (without changing) every IndentationFitter and every _fit
    pass: the boolean fit_range at entry and whether the optimiser ran."""
    indmod = w.modules["nanite.indent"]
    orig = indmod.IndentationFitter
    cap = []

    class Cap(orig):
        def __init__(self, *a, **k):
            self.passes = []
            super().__init__(*a, **k)
            self.attrs0 = (self.range_type, list(self.range_x), self.optimal_fit_edelta)
            cap.append(self)

        def _fit(self):
            rec = {"mask": self.fit_range.copy(), "calls_before": len(symlmfit.CALLS)}
            self.passes.append(rec)
            super()._fit()
            rec["ran"] = len(symlmfit.CALLS) > rec["calls_before"]
            if rec["ran"]:
                rec["call"] = symlmfit.CALLS[-1]
    indmod.IndentationFitter = Cap
    return cap


def _check_pass(tag, rec, x, seg, segment, lo_hi, k, n):
    """Pass `rec` selected exactly the specified points and, if it ran the
    optimiser, handed it k*x_i on those points."""
    if lo_hi is None:
        inr = [seg[i] == segment for i in range(n)]
    else:
        inr = [fc.in_range(x[i], seg[i], segment, lo_hi[0], lo_hi[1]) for i in range(n)]
    m = rec["mask"].elems
    for i in range(n):
        prove(f"{tag}:point-set[{i}]", same(m[i], inr[i]))
    if rec["ran"]:
        X = symnp.asarray(rec["call"]["args"][0])
        if X.present is not None:
            for i in range(n):
                prove(f"{tag}:abscissa[{i}]", implies(inr[i], X.elems[i] == x[i] * k))
        else:
            used = [i for i in range(n) if m[i] is True]
            prove(f"{tag}:abscissa-length", len(used) == len(X._idx))
            for j, i in enumerate(used[:len(X._idx)]):
                prove(f"{tag}:abscissa[{i}]", same(X.elems[j], x[i] * k))
    return inr


def _check_call_pointset(tag, call, x, seg, segment, lo_hi, k, n):
    """The abscissa handed to the optimiser is k*x_i on the specified set."""
    X = symnp.asarray(call["args"][0])
    if lo_hi is None:
        inr = [seg[i] == segment for i in range(n)]
    else:
        a, b = lo_hi
        inr = [fc.in_range(x[i], seg[i], segment, a, b) for i in range(n)]
    if X.present is not None:
        for i in range(n):
            prove(f"{tag}:point-set[{i}]", same(X.present[i], inr[i]))
            prove(f"{tag}:abscissa[{i}]", implies(inr[i], X.elems[i] == x[i] * k))
    else:
        # the code used a concrete mask: that is the whole segment
        used = [i for i in range(n) if seg[i] == segment]
        prove(f"{tag}:point-set", all_of([same(inr[i], seg[i] == segment) for i in range(n)]
                                         + [len(used) == len(X._idx)]))
        for j, i in enumerate(used):
            if j < len(X._idx):
                prove(f"{tag}:abscissa[{i}]", same(X.elems[j], x[i] * k))
    return inr


def t_relcp(model_key, layout, kmode, vary):
    global LAST_WORLD
    w, idnt, x, y, seg, P, init = fc.setup(layout, model_key, vary)
    LAST_WORLD = w
    cap = _capture_fitter(w)
    n = len(seg)
    a, b = real("ra"), real("rb")
    k = _k(kmode)
    check_assumptions()
    try:
        idnt.fit_model(model_key=model_key, params_initial=P, range_x=[a, b],
                       range_type="relative cp", segment=0, weight_cp=0, gcf_k=k)
    except KeyError as e:
        # first pass had too few points: no fitted contact point to anchor at
        prove("first-pass-failure-only-when-segment-too-small",
              len(symlmfit.CALLS) == 0 and sum(1 for s in seg if s == 0) - 1 <= len(vary))
        return {"outcome": f"KeyError {e}"}
    core.count("transitions")
    fp = idnt.fit_properties
    calls = symlmfit.CALLS
    fitter = cap[-1]
    prove("attrs-restored:range_type", fitter.range_type == "relative cp")
    prove("attrs-restored:range_x", all_of([same(fitter.range_x[0], a), same(fitter.range_x[1], b)]))
    prove("attrs-restored:optimal_fit_edelta", fitter.optimal_fit_edelta is False)
    prove("settings-kept", all_of([fp["range_type"] == "relative cp", same(fp["range_x"][0], a),
                                   same(fp["range_x"][1], b)]))
    passes = fitter.passes
    prove("four-passes", len(passes) == 4)
    # pass 0: whole segment
    _check_pass("pass0", passes[0], x, seg, 0, None, k, n)
    cp_rep = passes[0]["call"]["opt_values"]["contact_point"] / k
    last_inr = None
    for j in range(1, len(passes)):
        last_inr = _check_pass(f"pass{j}", passes[j], x, seg, 0,
                               (a + cp_rep, b + cp_rep), k, n)
        if passes[j]["ran"]:
            # the next pass is anchored at the contact point reported now
            cp_rep = passes[j]["call"]["opt_values"]["contact_point"] / k
    rng = idnt["fit range"].elems
    if len(calls) == 4:
        witness("four-passes")
    if fp["success"] is True:
        prove("success-iff-last-pass-ran", passes[-1]["ran"])
        for i in range(n):
            prove(f"final-range[{i}]", same(rng[i], last_inr[i]))
        xmin, xmax = fp["xmin"], fp["xmax"]
        for i in range(n):
            prove(f"xmin-lower-bound[{i}]", implies(last_inr[i], xmin <= x[i]))
            prove(f"xmax-upper-bound[{i}]", implies(last_inr[i], xmax >= x[i]))
        prove("xmin-attained", any_of([all_of([last_inr[i], xmin == x[i]]) for i in range(n)]))
        prove("xmax-attained", any_of([all_of([last_inr[i], xmax == x[i]]) for i in range(n)]))
        prove("reported-cp", fp["params_fitted"]["contact_point"].value * k
              == calls[-1]["opt_values"]["contact_point"])
    else:
        witness("later-pass-too-few-points")
        prove("failed:columns-nan", all(is_nan(v) for v in idnt["fit"].elems))
    return {"outcome": "success" if fp["success"] is True else "failed pass", "passes": len(calls)}


def t_plateau(model_key, layout, nsamp, kmode):
    global LAST_WORLD
    w, idnt, x, y, seg, P, init = fc.setup(layout, model_key, ["E"])
    LAST_WORLD = w
    cap = _capture_fitter(w)
    n = len(seg)
    a, b = real("ra"), real("rb")
    k = _k(kmode)
    check_assumptions()
    fitmod = w.modules["nanite.fit"]
    try:
        idnt.fit_model(model_key=model_key, params_initial=P, range_x=[a, b],
                       range_type="absolute", segment=0, weight_cp=0, gcf_k=k,
                       optimal_fit_edelta=True, optimal_fit_num_samples=nsamp)
    except (fitmod.FitDataError, fitmod.FitKeyError) as e:
        # documented refusals: wrong trend / no negative abscissa
        return {"outcome": f"refused: {type(e).__name__}"}
    except KeyError as e:
        # a scan fit with too few points leaves no fitted modulus to read
        core.note(f"KeyError {e} in plateau scan")
        return {"outcome": f"KeyError {e}"}
    except IndexError as e:
        # the plateau selection itself must be total: the reported optimum
        # exists for every (smoothed) modulus curve
        core.violated("plateau-selection-raises", info={"exception": repr(e)})
        return {"outcome": f"IndexError {e}"}
    core.count("transitions")
    fp = idnt.fit_properties
    calls = symlmfit.CALLS
    witness("plateau-done")
    E_arr = symnp.asarray(fp["optimal_fit_E_array"])
    D_arr = symnp.asarray(fp["optimal_fit_delta_array"])
    dopt = fp["optimal_fit_delta"]
    prove("arrays-have-requested-length", len(E_arr._idx) == nsamp and len(D_arr._idx) == nsamp)
    # grid = linspace(xmin_seg, 0.05*xmin_seg, n)
    segx = [x[i] for i in range(n) if seg[i] == 0]
    xm = fp_min(segx)
    grid = [xm + (xm * Fr(1, 20) - xm) * Fr(j, nsamp - 1) for j in range(nsamp)]
    for j in range(nsamp):
        prove(f"grid[{j}]", same(D_arr.elems[j], grid[j]))
    prove("grid-monotonic", all_of([D_arr.elems[j] < D_arr.elems[j + 1] for j in range(nsamp - 1)]))
    hi = sym_ite(a >= b, a, b)
    fitter = cap[-1]
    passes = fitter.passes
    prove("scan-fits-plus-final", len(passes) == nsamp + 1)
    for j in range(nsamp):
        _check_pass(f"scan{j}", passes[j], x, seg, 0, (grid[j], hi), k, n)
    prove("optimum-inside-grid", all_of([dopt >= D_arr.elems[0], dopt <= D_arr.elems[-1]]))
    inr = _check_pass("final", passes[-1], x, seg, 0, (dopt, hi), k, n)
    rng = idnt["fit range"].elems
    for i in range(n):
        prove(f"final-range[{i}]", same(rng[i], inr[i]))
    fitter = cap[-1]
    prove("attrs-restored", fitter.optimal_fit_edelta is True and fitter.range_type == "absolute"
          and len(fitter.range_x) == 2
          and all(u is v for u, v in zip(fitter.range_x, fitter.attrs0[1])))
    # the upper bound in force is the requested one (the lower one is a
    # documented don't-care with the plateau search)
    prove("upper-bound-kept", same(fp_max(fp["range_x"]), hi))
    return {"outcome": "plateau", "calls": len(calls)}


def fp_max(vals):
    m = vals[0]
    for v in vals[1:]:
        m = sym_ite(v > m, v, m)
    return m


def fp_min(vals):
    m = vals[0]
    for v in vals[1:]:
        m = sym_ite(v < m, v, m)
    return m


def classify(task, ob):
    return task["fn"] + ":" + ob["name"].split("[")[0]


def replay(task, ob, model):
    if task["fn"] == "t_abs":
        return c04.replay(task, ob, model)
    a = task["args"]
    seg = fc.LAYOUTS[a["layout"]]
    n = len(seg)
    g = lambda nm, d=0.0: float(model.get(nm, d))
    x = [g(f"x{i}") for i in range(n)]
    y = [g(f"y{i}") for i in range(n)]
    k = {"sym": g("k", 1.0), "half": 0.5, "one": 1.0}[a["kmode"]]
    opts = {}
    for kk, v in model.items():
        if kk.startswith("opt_"):
            _, idx, rest = kk.split("_", 2)
            opts.setdefault(int(idx), {})[rest.split("!")[0]] = float(v)
    filt = [float(v) for kk, v in sorted(model.items()) if kk.startswith("filt!")]
    init = {kk[5:]: float(v) for kk, v in model.items() if kk.startswith("init_")}
    mode = "relcp" if task["fn"] == "t_relcp" else "plateau"
    return common.REPLAY_HEAD + f'''
import lmfit, nanite, copy
from nanite import model as nmodel
import nanite.fit as nfit
x = np.array({x!r}); y = np.array({y!r}); seg = np.array({seg!r}, dtype=np.uint8)
k = {k!r}; ra, rb = {g("ra")!r}, {g("rb")!r}
opts = {opts!r}; init = {init!r}; vary = {a.get("vary", ["E"])!r}; mode = {mode!r}
nsamp = {a.get("nsamp", 0)!r}; filt = {filt!r}
model_key = {a["model_key"]!r}
idnt = nanite.Indentation(data={{"tip position": x.copy(), "force": y.copy(), "segment": seg}},
                          metadata={{"path": "/sym/c.jpk-force", "enum": 0, "point count": len(x),
                                    "imaging mode": "force-distance"}})
P = nmodel.models_available[model_key].get_parameter_defaults()
for nm, p in P.items():
    p.vary = nm in vary
    if nm in init:
        p.value = init[nm]
calls = []
def fake_minimize(fcn, params, method="leastsq", args=(), **kw):
    out = copy.deepcopy(params)
    o = opts.get(len(calls), {{}})
    for nm, p in out.items():
        if p.vary and nm in o:
            p.value = o[nm]
    r = fcn(out, *args)
    class R: pass
    res = R(); res.params = out; res.chisqr = float(np.sum(np.asarray(r)**2)); res.success = True
    calls.append((np.array(args[0]), out.valuesdict()))
    return res
nfit.lmfit.minimize = fake_minimize
if filt:
    nfit.spsig.filtfilt = lambda b, a, e: np.array(filt[:len(e)])
fitters = []
import nanite.indent as nind
class Cap(nfit.IndentationFitter):
    def __init__(self, *a, **kw):
        self.passes = []
        super().__init__(*a, **kw); fitters.append(self)
        self.attrs0 = (self.range_type, list(self.range_x), self.optimal_fit_edelta)
    def _fit(self):
        rec = {{"mask": np.array(self.fit_range, dtype=bool), "n0": len(calls)}}
        self.passes.append(rec)
        super()._fit()
        rec["ran"] = len(calls) > rec["n0"]
        if rec["ran"]:
            rec["xs"], rec["vals"] = calls[-1]
nind.IndentationFitter = Cap
kw = dict(model_key=model_key, params_initial=P, range_x=[ra, rb], segment=0, weight_cp=0, gcf_k=k)
bad = []
def sel(lo, hi):
    if lo == hi:
        return seg == 0
    return (seg == 0) & (x >= min(lo, hi)) & (x <= max(lo, hi))
def chk(tag, rec, e):
    if not np.array_equal(rec["mask"], e):
        bad.append(tag + " point set")
    elif rec["ran"] and (len(rec["xs"]) != e.sum() or not np.allclose(rec["xs"], x[e] * k, rtol=1e-12, atol=0)):
        bad.append(tag + " abscissa")
try:
    if mode == "relcp":
        idnt.fit_model(range_type="relative cp", **kw)
    else:
        idnt.fit_model(range_type="absolute", optimal_fit_edelta=True, optimal_fit_num_samples=nsamp, **kw)
except (nfit.FitDataError, nfit.FitKeyError, KeyError) as e:
    print("refused:", type(e).__name__, e); sys.exit(0)
except IndexError as e:
    print("REPRODUCED: plateau selection raised IndexError:", e); sys.exit(1)
fp = idnt.fit_properties
f = fitters[-1]
if mode == "relcp":
    if f.range_type != "relative cp" or list(f.range_x) != [ra, rb] or f.optimal_fit_edelta:
        bad.append("fitter attributes not restored")
    if len(f.passes) != 4:
        bad.append("number of passes")
    exp = seg == 0
    for j, rec in enumerate(f.passes):
        chk(f"pass {{j}}", rec, exp)
        if rec["ran"]:
            cp = rec["vals"]["contact_point"] / k
        exp = sel(ra + cp, rb + cp)
    if fp["success"]:
        used = np.asarray(idnt["fit range"], dtype=bool)
        if not np.array_equal(used, f.passes[-1]["mask"]):
            bad.append("final fit range")
        if abs(fp["xmin"] - x[used].min()) > 1e-9 * abs(x[used].min()) or abs(fp["xmax"] - x[used].max()) > 1e-9 * abs(x[used].max()):
            bad.append("xmin/xmax")
        if abs(fp["params_fitted"]["contact_point"].value * k - f.passes[-1]["vals"]["contact_point"]) > 1e-9 * abs(f.passes[-1]["vals"]["contact_point"]):
            bad.append("reported contact point")
else:
    D = np.asarray(fp["optimal_fit_delta_array"]); E = np.asarray(fp["optimal_fit_E_array"])
    xm = x[seg == 0].min()
    if len(D) != nsamp or len(E) != nsamp or not np.allclose(D, np.linspace(xm, xm * .05, nsamp)):
        bad.append("scan grid")
    hi = max(ra, rb)
    if len(f.passes) != nsamp + 1:
        bad.append("number of fits")
    for j in range(min(nsamp, len(f.passes))):
        chk(f"scan {{j}}", f.passes[j], sel(D[j], hi))
    d = fp["optimal_fit_delta"]
    if not (D.min() <= d <= D.max()):
        bad.append("optimum outside grid")
    chk("final", f.passes[-1], sel(d, hi))
    if not np.array_equal(np.asarray(idnt["fit range"], dtype=bool), sel(d, hi)):
        bad.append("final range")
    if not f.optimal_fit_edelta or f.range_type != "absolute" or list(f.range_x) != f.attrs0[1]:
        bad.append("fitter attributes not restored")
    if max(fp["range_x"]) != max(ra, rb):
        bad.append("upper bound changed")
print("obligation:", {ob["name"]!r}, "->", bad)
if bad:
    print("REPRODUCED"); sys.exit(1)
sys.exit(0)
'''
