"""C08 - contact-point estimators return a usable, scale-independent index."""
from fractions import Fraction as Fr

from symx import core, symnp, symlmfit
from symx.core import (real, assume, prove, witness, check_assumptions, same, all_of, any_of,
                       implies, is_nan, sym_ite)

from harness import common

ID = "C08"
LEVEL = "other"
LAST_WORLD = None
EXPLANATION = (
    "Bounded symbolic verification of the real poc.compute_poc, "
    "compute_preproc_clip_approach and the six poc_* estimators on a force array "
    "of N solver variables (no precondition: constant, decreasing, very short and "
    "baseline-free arrays are inside the domain). (1) Totality/validity: no "
    "exception on any path and the result is an integer index into the array; "
    "a NaN estimate yields size//2 of the analysed (clipped) part. (2) "
    "Scale/offset independence over the reals: the product program poc(f) vs "
    "poc(c*f+d) with symbolic shift d and factor c (symbolic at small N, the "
    "rationals 1/2, 2, 3 at larger N) returns the same index; for the three "
    "fit-based estimators every argument handed to lmfit.minimize (normalised "
    "ordinate, abscissa, initial values, bounds) is proven equal in both runs. (3) "
    "Accuracy on clean curves f_i=b+a*max(0,i-c)^2: deviation_from_baseline "
    "returns floor(c)+1 (within one sample of the true contact).")
ASSUMPTIONS = [
    "real arithmetic: the 'exactly for power-of-two factors / within one sample otherwise' clause is an IEEE rounding statement; over the reals the index is exactly invariant for every positive factor",
    "lmfit.minimize (Nelder-Mead) is a contract stub: every varying parameter of the result is an arbitrary real inside its bounds; x0 has no bounds, so the fitted x0 is ANY real (an earlier version assumed it inside [0, size), which hid that the code did not range-check int(x0))",
    "scale/offset invariance of fit_constant_polynomial and fit_line_polynomial is not decided (path tree of the product program too large at the minimum sizes 7/8) and not claimed",
    "gradient_zero_crossing: only the branch for <=50 gradient samples (NaN -> size//2) is inside the bound N<=12; its main branch needs >60 samples and is outside",
    "sin/cos of the constant -pi/4 evaluated in double precision (constants only)",
]
BUDGET_S = {"quick": 900, "thorough": 3400}
QUERY_TIMEOUT_MS = {"quick": 60000, "thorough": 240000}
METHODS = ["deviation_from_baseline", "frechet_direct_path", "gradient_zero_crossing",
           "fit_constant_line", "fit_constant_polynomial", "fit_line_polynomial"]


def bounds(tier):
    q = tier == "quick"
    return {"totality N": {"deviation_from_baseline": "1..10" if q else "1..14",
                           "frechet_direct_path": "1..6" if q else "1..8",
                           "gradient_zero_crossing": "1..12", "fit-based": "3 and 8, optimiser result for the unbounded x0 arbitrary"},
            "degenerate data": "constant and strictly decreasing arrays, N in {1,2,6,9}, all six estimators: index == N//2",
            "invariance": {"deviation_from_baseline": "N=5 symbolic c,d; N=10 c in {1/2,2,3}, d symbolic",
                           "frechet_direct_path": "N=4 symbolic c,d; N=6 c in {1/2,2,3}",
                           "fit-based": "fit_constant_line N=5, c in {1,2}, d symbolic (arguments of the optimiser); the two polynomial estimators need N>=7/8 where the product program did not finish within the cap: their invariance is NOT decided and not claimed"},
            "accuracy": "deviation_from_baseline N=12, quadratic onset at real c in [3, 9]",
            "outside": "IEEE rounding; optimiser behaviour; N beyond the stated values"}


def tasks(tier):
    q = tier == "quick"
    ts = []
    for n in range(1, (10 if q else 14) + 1):
        ts.append({"name": f"total:deviation_from_baseline:N{n}", "fn": "t_total",
                   "args": {"method": "deviation_from_baseline", "n": n}, "max_paths": 3000})
    for n in range(1, (6 if q else 8) + 1):
        ts.append({"name": f"total:frechet_direct_path:N{n}", "fn": "t_total",
                   "args": {"method": "frechet_direct_path", "n": n}, "max_paths": 6000})
    for n in (1, 2, 5, 12):
        ts.append({"name": f"total:gradient_zero_crossing:N{n}", "fn": "t_total",
                   "args": {"method": "gradient_zero_crossing", "n": n}, "max_paths": 3000})
    for m in METHODS[3:]:
        for n in (3, 8):
            ts.append({"name": f"total:{m}:N{n}", "fn": "t_total", "args": {"method": m, "n": n},
                       "max_paths": 6000})
    for m in METHODS:
        for kind in ("constant", "decreasing"):
            for n in (1, 2, 6, 9):
                ts.append({"name": f"degenerate:{m}:{kind}:N{n}", "fn": "t_total",
                           "args": {"method": m, "n": n, "kind": kind}, "max_paths": 3000, "witnesses": ["total"]})
    ts.append({"name": "inv:deviation_from_baseline:N5:csym", "fn": "t_inv",
               "args": {"method": "deviation_from_baseline", "n": 5, "c": "sym"}, "max_paths": 3000})
    ts.append({"name": "inv:frechet_direct_path:N4:csym", "fn": "t_inv",
               "args": {"method": "frechet_direct_path", "n": 4, "c": "sym"}, "max_paths": 3000})
    for c in ("1/2", "2", "3"):
        ts.append({"name": f"inv:deviation_from_baseline:N10:c{c}", "fn": "t_inv",
                   "args": {"method": "deviation_from_baseline", "n": 10, "c": c}, "max_paths": 3000})
        ts.append({"name": f"inv:frechet_direct_path:N6:c{c}", "fn": "t_inv",
                   "args": {"method": "frechet_direct_path", "n": 6, "c": c}, "max_paths": 6000})
    ts.append({"name": "inv:fit_constant_line:N5:c2", "fn": "t_inv_fit",
               "args": {"method": "fit_constant_line", "n": 5, "c": "2"}, "max_paths": 6000})
    ts.append({"name": "inv:fit_constant_line:N5:shift", "fn": "t_inv_fit",
               "args": {"method": "fit_constant_line", "n": 5, "c": "1"}, "max_paths": 6000})
    ts.append({"name": "accuracy:deviation_from_baseline:N12", "fn": "t_accuracy", "args": {"n": 12},
               "max_paths": 3000, "witnesses": ["clean-curve"]})
    return ts


def _poc():
    global LAST_WORLD
    w = common.indent_world()
    LAST_WORLD = w
    symlmfit.reset_stub()

    def policy(rec, name, p):
        # the estimators leave x0 unbounded: the optimiser may return any real
        # (a convergent run stays inside the data; nothing in the code relies on it)
        return None
    symlmfit.MINIMIZE_POLICY[0] = policy
    return w.modules["nanite.poc"]


def _run(poc, method, force, concretize=True):
    """compute_poc; returns (index or None, exception or None)."""
    try:
        cp = poc.compute_poc(force, method=method)
    except (ValueError, IndexError, ZeroDivisionError, TypeError, KeyError) as e:
        return None, e
    if concretize and isinstance(cp, core.SymInt):
        cp = core.concretize(cp, -4, 300, "poc index")
    return cp, None


def t_total(method, n, kind="any"):
    poc = _poc()
    f = [real(f"f{i}") for i in range(n)]
    if kind == "constant":
        for i in range(1, n):
            assume(f[i] == f[0])
    elif kind == "decreasing":
        for i in range(1, n):
            assume(f[i] < f[i - 1])
    check_assumptions()
    cp, err = _run(poc, method, symnp.SymArr(list(f)), concretize=False)
    if err is not None:
        core.violated("no-exception", info={"exception": repr(err)[:200], "method": method})
        return {"raised": repr(err)[:200]}
    prove("no-exception", True)
    prove("result-is-an-integer", isinstance(cp, (int, core.SymInt)) and not isinstance(cp, bool), info={"cp": repr(cp)[:80]})
    if isinstance(cp, (int, core.SymInt)):
        prove("index-inside-the-array", core.all_of([cp >= 0, cp < n]), info={"cp": repr(cp)[:80], "n": n})
        if kind != "any":
            # degenerate data: the documented fallback, the middle of the data
            prove("degenerate-data-give-the-middle-of-the-data", cp == n // 2, info={"cp": repr(cp)[:80], "n": n})
    witness("total")
    return {"method": method, "n": n, "cp": repr(cp)[:60]}


def _factor(c):
    if c == "sym":
        k = real("c")
        assume(k > 0)
        return k
    return Fr(c)


def t_inv(method, n, c):
    poc = _poc()
    f = [real(f"f{i}") for i in range(n)]
    k = _factor(c)
    d = real("d")
    check_assumptions()
    a, ea = _run(poc, method, symnp.SymArr(list(f)))
    b, eb = _run(poc, method, symnp.SymArr([fi * k + d for fi in f]))
    prove("same-outcome-kind", (ea is None) == (eb is None), info={"a": repr(ea), "b": repr(eb)})
    if ea is None and eb is None:
        prove("same-index-after-scaling-and-shift", a == b, info={"index": repr(a), "scaled": repr(b)})
    witness("invariance")
    return {"method": method, "index": repr(a)}


def t_inv_fit(method, n, c):
    poc = _poc()
    f = [real(f"f{i}") for i in range(n)]
    k = _factor(c)
    d = real("d")
    check_assumptions()
    a, ea = _run(poc, method, symnp.SymArr(list(f)))
    calls_a = list(symlmfit.CALLS)
    symlmfit.CALLS.clear()
    b, eb = _run(poc, method, symnp.SymArr([fi * k + d for fi in f]))
    calls_b = list(symlmfit.CALLS)
    prove("same-outcome-kind", (ea is None) == (eb is None), info={"a": repr(ea), "b": repr(eb)})
    prove("same-number-of-optimisations", len(calls_a) == len(calls_b))
    for ca, cb in zip(calls_a, calls_b):
        xa, ya = [symnp.asarray(v) for v in ca["args"][:2]]
        xb, yb = [symnp.asarray(v) for v in cb["args"][:2]]
        prove("optimiser-abscissa-equal", len(xa._idx) == len(xb._idx)
              and all_of([same(u, v) for u, v in zip(xa.elems, xb.elems)]))
        prove("optimiser-ordinate-equal", len(ya._idx) == len(yb._idx)
              and all_of([same(u, v) for u, v in zip(ya.elems, yb.elems)]))
        for sa, sb in zip(ca["params_state"], cb["params_state"]):
            prove(f"optimiser-initial-parameter-equal[{sa[0]}]",
                  sa[0] == sb[0] and all_of([same(sa[i], sb[i]) for i in (1, 4, 5)]) and sa[2] == sb[2])
        prove("optimiser-method-equal", ca["method"] == cb["method"])
    witness("invariance")
    return {"method": method, "optimisations": len(calls_a)}


def t_accuracy(n):
    poc = _poc()
    a, b, c = real("a"), real("b"), real("c")
    assume(a > 0)
    assume(c >= 3)
    assume(c <= 9)
    f = []
    for i in range(n):
        r = i - c
        f.append(b + a * sym_ite(r > 0, r * r, 0))
    check_assumptions()
    witness("clean-curve")
    cp, err = _run(poc, "deviation_from_baseline", symnp.SymArr(f))
    prove("no-exception", err is None, info={"e": repr(err)})
    if err is None:
        # first sample strictly beyond the true contact position c
        prove("index-is-first-sample-beyond-contact", all_of([cp > c, cp - 1 <= c]), info={"cp": cp})
    return {"cp": repr(cp)}


def classify(task, ob):
    return f"{task['fn']}:{task['args'].get('method', 'deviation_from_baseline')}:{ob['name'].split('[')[0]}"


def replay(task, ob, model):
    a = task["args"]
    n = a["n"]
    g = lambda nm, d=0.0: float(model.get(nm, d))
    if task["fn"] == "t_accuracy":
        f = [g("b") + g("a", 1.0) * max(0.0, i - g("c", 5.0)) ** 2 for i in range(n)]
        return common.REPLAY_HEAD + f'''
import nanite.poc as poc
f = np.array({f!r}); c = {g("c", 5.0)!r}
cp = poc.compute_poc(f, method="deviation_from_baseline")
print("cp", cp, "true contact", c)
if not (cp > c and cp - 1 <= c):
    print("REPRODUCED: estimate not within one sample of the true contact"); sys.exit(1)
sys.exit(0)
'''
    f = [g(f"f{i}") for i in range(n)]
    c = a.get("c")
    cval = g("c", 2.0) if c == "sym" else (float(Fr(c)) if c else 1.0)
    opts = {}
    for kk, v in model.items():
        if kk.startswith("opt_"):
            _, idx, rest = kk.split("_", 2)
            opts.setdefault(int(idx), {})[rest.split("!")[0]] = float(v)
    return common.REPLAY_HEAD + f'''
import nanite.poc as poc, copy
f = np.array({f!r}, dtype=float); method = {a["method"]!r}
mode = {task["fn"]!r}; kind = {a.get("kind", "any")!r}
opts = {opts!r}
if opts and mode == "t_total":
    # the optimiser is a contract stub in the harness (any value inside the
    # parameter bounds): hand the solver's values to the real estimator
    ncall = [0]
    def fake_minimize(fcn, params, args=(), method="nelder", **kw):
        out = copy.deepcopy(params)
        for nm, val in opts.get(ncall[0], {{}}).items():
            if nm in out and out[nm].vary: out[nm].set(value=val)
        ncall[0] += 1
        class R: pass
        r = R(); r.params = out; r.success = True; r.residual = np.asarray(fcn(out, *args))
        return r
    poc.lmfit.minimize = fake_minimize
def run(arr):
    try:
        return poc.compute_poc(arr.copy(), method=method), None
    except Exception as e:
        return None, e
cp, err = run(f)
print("force", f, "->", cp, err)
bad = []
if mode == "t_total":
    if err is not None:
        bad.append("raised %r" % (err,))
    elif not (isinstance(cp, (int, np.integer)) and 0 <= cp < len(f)):
        bad.append("invalid index %r for size %d" % (cp, len(f)))
    elif kind != "any" and cp != len(f) // 2:
        bad.append("%s data: index %r instead of the middle %d" % (kind, cp, len(f) // 2))
else:
    cp2, err2 = run(f * {cval!r} + {g("d")!r})
    print("scaled ->", cp2, err2)
    if (err is None) != (err2 is None) or (err is None and cp != cp2):
        bad.append("index changes under scaling/shift: %r vs %r" % (cp, cp2))
if bad:
    print("REPRODUCED:", bad); sys.exit(1)
sys.exit(0)
'''
