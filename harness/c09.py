"""C09 - quality rating: total, in range, tied to the current fit."""
import copy
from fractions import Fraction as Fr

from symx import core, symnp, symlmfit
from symx.core import prove, witness, check_assumptions, real, assume, same, all_of, is_nan

from harness import common

ID = "C09"
LEVEL = "other"
LAST_WORLD = None
EXPLANATION = (
    "State-symbolic verification of the real Indentation.rate_quality / "
    "get_rating_parameters, IndentationRater.rate/_pre_rate and "
    "IndentationFeatures (validity predicates, compute_features, "
    "get_feature_names, and for unfitted states every real feat_* method). The "
    "curve state ranges over {fresh, preprocessed only, settings edited after a "
    "fit, unsuccessful fit, successful fit with/without a contact point}; in the "
    "fitted state every feature value is a solver variable (binary in {0,1} or "
    "NaN, continuous real or NaN) and the regressor prediction is an arbitrary "
    "real. z3/path exploration shows: no exception in any state; 'none' gives -1; "
    "no successful current fit gives -1; a failed binary criterion gives 0; an "
    "undefined feature gives -1; otherwise the regressor's value; the result equals "
    "rater.rate(datasets=curve)[0]; the cached value is returned without a new "
    "rater iff hash, regressor, training set, names and LDA flag are all unchanged; "
    "apply_preprocessing resets the cache.")
ASSUMPTIONS = [
    "get_rater is a stub that builds the real IndentationRater object without training (scikit-learn is not encodable); _rate returns an arbitrary real: the [0,10] range and cross-process determinism of the regressors are outside the claim",
    "feature numerics in the fitted state are C17's subject: there the 15 feat_* methods are replaced by symbolic values; in every unfitted state the real feat_* methods run",
    "fit_properties states are constructed directly (the API recipes that reach them are used by the replays)",
]
BUDGET_S = {"quick": 600, "thorough": 1800}
QUERY_TIMEOUT_MS = {"quick": 30000, "thorough": 60000}

STATES = ["fresh", "preprocessed-only", "settings-only", "unsuccessful-fit", "unsuccessful-fit-stale-parameters", "fitted", "fitted-no-contact-point"]
CHANGES = ["none", "hash", "regressor", "training_set", "names", "lda", "lda-false-vs-none", "names-empty-vs-none", "preprocessing"]


def bounds(tier):
    return {"states": STATES, "second-call change": CHANGES,
            "feature NaN patterns (fitted)": ["none", "one binary NaN", "one continuous NaN", "binary zero"],
            "outside": "scikit-learn training/prediction; feature numerics (C17)"}


def tasks(tier):
    ts = []
    for st in STATES:
        ts.append({"name": f"total:{st}", "fn": "t_state", "args": {"state": st, "pattern": "sym"},
                   "witnesses": ["rated"]})
    for pat in ("bin-nan", "con-nan"):
        ts.append({"name": f"total:fitted:{pat}", "fn": "t_state", "args": {"state": "fitted", "pattern": pat},
                   "witnesses": ["rated"]})
    if tier == "thorough":
        from harness.c17 import ALL as FEATS
        for nm in FEATS:
            ts.append({"name": f"total:fitted:nan={nm}", "fn": "t_state",
                       "args": {"state": "fitted", "pattern": "nan:" + nm}, "witnesses": ["rated"]})
    for ch in CHANGES:
        ts.append({"name": f"cache:{ch}", "fn": "t_cache", "args": {"change": ch}, "witnesses": ["second-call"]})
    return ts


def _setup(state, pattern="sym"):
    global LAST_WORLD
    w = common.indent_world()
    LAST_WORLD = w
    indmod = w.modules["nanite.indent"]
    rater_mod = w.modules["nanite.rate.rater"]
    feats_mod = w.modules["nanite.rate.features"]
    n = 6
    cols = {"tip position": symnp.SymArr([real(f"x{i}") for i in range(n)]),
            "force": symnp.SymArr([real(f"y{i}") for i in range(n)]),
            "segment": symnp.SymArr([0] * n, dtype=symnp.uint8)}
    idnt = common.make_indentation(w, cols, spring_constant=Fr(1, 10))
    fp = idnt.fit_properties
    md = w.modules["nanite.model"].models_available["hertz_para"]
    if state in ("preprocessed-only",):
        dict.__setitem__(fp, "preprocessing", ["compute_tip_position"])
        dict.__setitem__(fp, "preprocessing_options", {})
    if state in ("settings-only", "unsuccessful-fit", "unsuccessful-fit-stale-parameters", "fitted", "fitted-no-contact-point"):
        for k, v in w.modules["nanite.fit"].FP_DEFAULT.items():
            dict.__setitem__(fp, k, copy.deepcopy(v))
        dict.__setitem__(fp, "params_initial", md.get_parameter_defaults())
    if state in ("unsuccessful-fit", "unsuccessful-fit-stale-parameters"):
        dict.__setitem__(fp, "success", False)
        dict.__setitem__(fp, "hash", "h1")
    if state == "unsuccessful-fit-stale-parameters":
        Pst = md.get_parameter_defaults()
        Pst["contact_point"].value = real("cp_stale")
        dict.__setitem__(fp, "params_fitted", Pst)
        idnt["fit"] = symnp.SymArr([float("nan")] * n)
    if state in ("fitted", "fitted-no-contact-point"):
        dict.__setitem__(fp, "success", True)
        dict.__setitem__(fp, "hash", "h1")
        P = md.get_parameter_defaults()
        P["contact_point"].value = real("cp")
        if state == "fitted-no-contact-point":
            dict.__delitem__(P, "contact_point")
        dict.__setitem__(fp, "params_fitted", P)
        idnt["fit"] = symnp.SymArr([real(f"fit{i}") for i in range(n)])
    # features: symbolic values in the fitted state
    names_all = sorted(feats_mod.IndentationFeatures.get_feature_names())
    fvals = {}
    if state == "fitted":
        for j, nm in enumerate(names_all):
            if nm.startswith("feat_bin_"):
                v = real("v_" + nm)
                assume(core.any_of([v == 0, v == 1]))
                if (pattern == "bin-nan" and nm == "feat_bin_cp_position") or pattern == "nan:" + nm:
                    v = float("nan")
            else:
                v = real("v_" + nm)
                if (pattern == "con-nan" and nm == "feat_con_apr_sum") or pattern == "nan:" + nm:
                    v = float("nan")
            fvals[nm] = v
            setattr(feats_mod.IndentationFeatures, nm, (lambda val: (lambda self: val))(v))
    made = []
    pred = real("regressor_prediction")

    def get_rater(regressor, training_set="zef18", names=None, lda=None, **kw):
        r = object.__new__(rater_mod.IndentationRater)
        r.names = sorted(feats_mod.IndentationFeatures.get_feature_names(names=names, which_type="all"))
        r.pipeline = None
        r.dataset = None
        r._rate = lambda sample: pred
        made.append(r)
        return r
    indmod.get_rater = get_rater
    return w, idnt, fvals, made, pred, names_all, get_rater


def t_state(state, pattern):
    w, idnt, fvals, made, pred, names_all, get_rater = _setup(state, pattern)
    check_assumptions()
    try:
        rt = idnt.rate_quality()
    except Exception as e:   # noqa: BLE001 - totality is the obligation
        core.violated("never-raises", info={"state": state, "exception": repr(e)[:200]})
        return {"state": state, "raised": repr(e)[:200]}
    witness("rated")
    prove("never-raises", True)
    rt_none = idnt.rate_quality(regressor="none")
    prove("pseudo-regressor-none-gives-minus-one", same(rt_none, -1))
    if state != "fitted":
        # -1, or 0 when the only criterion computable without a successful fit
        # (curve too short: fewer than 600 approach points) already fails
        attempted = "success" in idnt.fit_properties
        too_short = attempted and sum(1 for v in idnt["segment"].elems if v == 0) < 600
        prove("no-successful-fit-gives-minus-one-or-zero-if-excluded", same(rt, 0 if too_short else -1),
              info={"state": state, "fit attempted": attempted})
    else:
        bins = [fvals[n] for n in names_all if n.startswith("feat_bin_")]
        cons = [fvals[n] for n in names_all if n.startswith("feat_con_")]
        bad_bin = core.any_of([b == 0 for b in bins if not is_nan(b)])
        nan_con = any(is_nan(c) for c in cons)
        if core.decide(bad_bin):
            prove("failed-binary-criterion-gives-zero", same(rt, 0))
        elif nan_con:
            prove("undefined-feature-gives-minus-one", same(rt, -1))
        else:
            prove("otherwise-regressor-prediction", same(rt, pred))
    # equals the standalone rater
    r2 = get_rater("Extra Trees")
    prove("equals-standalone-rater", same(r2.rate(datasets=idnt)[0], rt))
    rp = idnt.get_rating_parameters()
    prove("rating-parameters-report-the-value", same(rp["Rating"], rt) and rp["Regressor"] == "Extra Trees")
    return {"state": state, "pattern": pattern}


def t_cache(change):
    w, idnt, fvals, made, pred, names_all, get_rater = _setup("fitted")
    common.install_abstract_steps(w)
    check_assumptions()
    kw = dict(regressor="Extra Trees", training_set="zef18", names=None, lda=None)
    kw2 = dict(kw)
    if change == "regressor":
        kw2["regressor"] = "AdaBoost"
    elif change == "training_set":
        kw2["training_set"] = "/some/other/set"
    elif change == "names":
        kw2["names"] = ["feat_con_apr_sum", "feat_bin_size"]
    elif change == "lda":
        kw2["lda"] = True
    elif change == "lda-false-vs-none":
        kw["lda"] = False          # first call with False, second with None
    elif change == "names-empty-vs-none":
        kw["names"] = []
    r1 = idnt.rate_quality(**kw)
    n1 = len(made)
    if change == "hash":
        dict.__setitem__(idnt.fit_properties, "hash", "h2")
    if change == "preprocessing":
        idnt._raw_data["height (measured)"] = idnt._raw_data["tip position"]
        idnt.apply_preprocessing(["compute_tip_position", "correct_force_offset"])
        prove("preprocessing-resets-cache", idnt._rating is None)
    try:
        r2 = idnt.rate_quality(**kw2)
    except Exception as e:   # noqa: BLE001
        core.violated("never-raises", info={"change": change, "exception": repr(e)[:200]})
        return {"change": change, "raised": repr(e)[:200]}
    witness("second-call")
    n2 = len(made)
    if change == "none":
        prove("cached-value-returned-without-new-rater", n2 == n1 and same(r1, r2))
    else:
        prove("change-invalidates-cache", n2 == n1 + 1, info={"change": change})
    rp = idnt.get_rating_parameters()
    prove("rating-parameters-track-arguments",
          rp["Regressor"] == kw2["regressor"] and rp["Training set"] == kw2["training_set"]
          and rp["Feature names"] == kw2["names"] and rp["Linear discriminant analysis"] == kw2["lda"])
    return {"change": change, "raters_built": [n1, n2]}


def classify(task, ob):
    st = task["args"].get("state", task["args"].get("change"))
    return f"{ob['name']}:{st}"


def replay(task, ob, model):
    a = task["args"]
    pattern = a.get("pattern")
    fv = {}
    if a.get("state") == "fitted" and pattern:
        def num(v):
            return float(v.get("float", 0)) if isinstance(v, dict) else float(v)
        from harness.c17 import ALL as FEATS
        for nm in FEATS:
            v = num(model.get("v_" + nm, 1 if nm.startswith("feat_bin_") else 0.5))
            if (pattern == "bin-nan" and nm == "feat_bin_cp_position") or (pattern == "con-nan" and nm == "feat_con_apr_sum") \
                    or pattern == "nan:" + nm:
                v = float("nan")
            fv[nm] = v
        pred = num(model.get("regressor_prediction", 3.5))
        return common.REPLAY_HEAD + f'''
import nanite, math
import nanite.indent as nind
from nanite.rate import rater as rmod, features as fmod
nan = float("nan")
fv = {fv!r}; pred = {pred!r}
for nm, v in fv.items():
    setattr(fmod.IndentationFeatures, nm, (lambda val: (lambda self: val))(v))
rmod.IndentationRater._rate = lambda self, sample: pred
n = 700
x = np.linspace(2e-6, -1e-6, n); f = np.concatenate([np.zeros(400), np.linspace(0, 1, 300) ** 1.5 * 5e-9])
idnt = nanite.Indentation(data={{{{"height (measured)": x, "force": f, "time": np.arange(n * 1.) / n, "segment": np.zeros(n, dtype=np.uint8)}}}},
                          metadata={{{{"path": "/sym/c.jpk-force", "enum": 0, "point count": n, "imaging mode": "force-distance", "spring constant": 0.1}}}})
idnt.apply_preprocessing(["compute_tip_position", "correct_force_offset", "correct_tip_offset"]); idnt.fit_model(model_key="hertz_para")
bad = []
try:
    r = idnt.rate_quality()
    bins = [v for k, v in fv.items() if k.startswith("feat_bin_")]; cons = [v for k, v in fv.items() if k.startswith("feat_con_")]
    if any(b == 0 for b in bins): want = 0
    elif any(math.isnan(c) for c in cons): want = -1
    else: want = pred
    print("rating", r, "expected", want)
    if r != want: bad.append("rating %r, expected %r" % (r, want))
    r2 = nind.get_rater(regressor="Extra Trees", training_set="zef18").rate(datasets=idnt)[0]
    if r2 != r: bad.append("standalone rater gives %r" % (r2,))
except Exception as e:
    bad.append("rate_quality raised %r" % (e,))
print({ob["name"]!r}, bad)
if bad:
    print("REPRODUCED"); sys.exit(1)
sys.exit(0)
'''.replace("{{{{", "{{").replace("}}}}", "}}")
    return common.REPLAY_HEAD + f'''
import nanite, copy
import nanite.indent as nind
from nanite.rate import rater as rmod
state = {a.get("state")!r}; change = {a.get("change")!r}
def curve(n=700):
    nb = n * 4 // 7
    x = np.linspace(2e-6, -1e-6, n); f = np.concatenate([np.zeros(nb) + 1e-12 * np.cos(np.arange(nb)), np.linspace(0, 1, n - nb) ** 1.5 * 5e-9])
    return nanite.Indentation(data={{"height (measured)": x.copy(), "force": f.copy(), "time": np.arange(n * 1.) / n,
                                    "segment": np.zeros(n, dtype=np.uint8)}},
                              metadata={{"path": "/sym/c.jpk-force", "enum": 0, "point count": n,
                                        "imaging mode": "force-distance", "spring constant": 0.1}})
pre = ["compute_tip_position", "correct_force_offset", "correct_tip_offset"]
def prepare(n):
    idnt = curve(n)
    if state == "preprocessed-only":
        idnt.apply_preprocessing(pre)
    elif state == "settings-only":
        idnt.apply_preprocessing(pre); idnt.fit_model(model_key="hertz_para"); idnt.fit_properties["weight_cp"] = 3e-7
    elif state in ("unsuccessful-fit", "unsuccessful-fit-stale-parameters"):
        idnt.apply_preprocessing(pre)
        if state.endswith("stale-parameters"): idnt.fit_model(model_key="hertz_para")
        idnt.fit_model(model_key="hertz_para", range_x=[5e-6, 6e-6])
    elif state == "fitted-no-contact-point":
        idnt.apply_preprocessing(pre); idnt.fit_model(model_key="hertz_para")
        dict.__delitem__(idnt.fit_properties["params_fitted"], "contact_point")
    elif state == "fitted" or change:
        idnt.apply_preprocessing(pre); idnt.fit_model(model_key="hertz_para")
    return idnt
bad = []
if state not in ("fitted", None):
    # a curve too short for the size criterion (fewer than 600 approach points):
    # rated 0 once a fit was attempted, -1 before
    short = prepare(70)
    try:
        r = short.rate_quality()
        want = 0 if "success" in short.fit_properties else -1
        print("short curve, state", state, "rating", r, "expected", want)
        if r != want: bad.append("short curve: rating %r, expected %r" % (r, want))
        if rmod.IndentationRater.__mro__ and nind.get_rater(regressor="Extra Trees", training_set="zef18").rate(datasets=short)[0] != r:
            bad.append("short curve: standalone rater differs")
    except Exception as e:
        bad.append("short curve: rate_quality raised %r" % (e,))
idnt = prepare(700)
made = []
_get = nind.get_rater
def counting(**kw):
    made.append(kw); return _get(**kw)
nind.get_rater = counting
try:
    r = idnt.rate_quality()
    print("state", state, "rating", r)
    if state not in ("fitted", "fitted-no-contact-point", None) and r != -1:
        bad.append("rating without successful fit is %r" % (r,))
    if idnt.rate_quality(regressor="none") != -1:
        bad.append("regressor none")
    if change:
        n1 = len(made)
        kw = dict(regressor="Extra Trees", training_set="zef18", names=None, lda=None)
        if change == "regressor": kw["regressor"] = "AdaBoost"
        if change == "names": kw["names"] = ["feat_con_apr_sum", "feat_bin_size"]
        if change == "lda": kw["lda"] = True
        if change == "hash": idnt.fit_model(weight_cp=3e-7)
        if change == "preprocessing":
            idnt.apply_preprocessing(pre[:2])
            if idnt._rating is not None: bad.append("cache not reset by preprocessing")
        if change != "training_set":
            idnt.rate_quality(**kw)
            if (len(made) - n1) != (0 if change == "none" else 1):
                bad.append("cache use after change %s: %d new raters" % (change, len(made) - n1))
except Exception as e:
    bad.append("rate_quality raised %r" % (e,))
print({ob["name"]!r}, bad)
if bad:
    print("REPRODUCED"); sys.exit(1)
sys.exit(0)
'''
