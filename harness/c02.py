"""C02 - shipped models evaluate their published formulas."""
import re
from fractions import Fraction as Fr

from symx import core, symnp
from symx.core import real, assume, prove, witness, implies, check_assumptions

import specs
from harness import common

ID = "C02"
LEVEL = "other"
LAST_WORLD = None
EXPLANATION = (
    "Bounded symbolic verification: the unmodified model_func of each shipped "
    "model module is executed on an indentation array of N symbolic reals and a "
    "symbolic parameter vector inside the model's lmfit bounds (numpy -> symnp "
    "over z3 reals, sqrt/cube-root/tan as hash-consed auxiliaries). Per element "
    "the solver shows impl == literature formula (+baseline) in contact and "
    "impl == baseline off contact, for all reals; counterexamples are replayed "
    "on real numpy. Doc-consistency compares constants parsed from model_doc "
    "with the same oracle.")
ASSUMPTIONS = [
    "real arithmetic, not IEEE doubles; float literals read as the simplest rational rounding to them",
    "tan is an uninterpreted function shared by implementation and specification (argument equality is checked, numpy's tan itself is trusted)",
    "sqrt/x^(p/q) are axiomatised by v>=0, v^q=x^p for x>=0",
    "parameters inside the models' lmfit bounds with R>0, t>=1e-12, E_S>0 (Clifford), 0<alpha<90 (cone) / 30 (pyramid)",
    "prefactor overflow (E near 1e308) is outside the claim",
    "oracle: /verif/specs.py, hand transcription of Hertz/Sneddon/Bilodeau/Clifford formulas",
]
BUDGET_S = {"quick": 600, "thorough": 2400}
QUERY_TIMEOUT_MS = {"quick": 60000, "thorough": 240000}


def bounds(tier):
    return {"N (array length)": [1, 3] if tier == "quick" else [1, 2, 3, 4, 6],
            "models": list(specs.PARAMS), "outside": "arrays longer than N; IEEE rounding"}


def tasks(tier):
    ns = [1, 3] if tier == "quick" else [1, 2, 3, 4, 6]
    ts = []
    for key in specs.PARAMS:
        for n in ns:
            ts.append({"name": f"formula:{key}:N{n}", "fn": "t_formula",
                       "args": {"key": key, "n": n},
                       "witnesses": ["in_contact", "off_contact", "vacuity_twin"]})
        ts.append({"name": f"doc:{key}", "fn": "t_doc", "args": {"key": key}})
    return ts


def _load(key):
    global LAST_WORLD
    w = common.model_world()
    LAST_WORLD = w
    return w.modules["nanite.model." + specs.MODEL_FILES[key]]


def t_formula(key, n):
    mod = _load(key)
    p = common.sym_params(key)
    delta = symnp.SymArr([real(f"delta{i}") for i in range(n)])
    check_assumptions()
    before = list(delta.elems)
    out = mod.model_func(delta, **p)
    assert isinstance(out, symnp.SymArr) and out.present is None
    prove("shape", len(out._idx) == n)
    # inputs not modified
    prove("input-unmodified", all(a is b for a, b in zip(before, delta.elems)))
    cp, bl = p["contact_point"], p["baseline"]
    for i in range(n):
        d = cp - before[i]
        spec = specs.contact_force(common.SymOps, key, d, p) + bl
        prove(f"contact[{i}]", implies(d > 0, out.elems[i] == spec))
        prove(f"offcontact[{i}]", implies(d <= 0, out.elems[i] == bl))
    # reachability / vacuity
    core.cur().model = None
    if core.cur().check([core.bv(cp - before[0] > 0)])[0] == "sat":
        core.cur().witnesses["in_contact"] = "sat"
    if core.cur().check([core.bv(cp - before[0] <= 0)])[0] == "sat":
        core.cur().witnesses["off_contact"] = "sat"
    # twin: the obligation 'False' must be refutable, i.e. the path is reachable
    r, _ = core.cur().check([])
    core.cur().witnesses["vacuity_twin"] = r
    return {"model": key, "N": n, "sample_impl_term": str(out.elems[0])[:300]}


def t_doc(key):
    mod = _load(key)
    checks = specs.doc_checks(key, mod.model_doc)
    for name, ok, info in checks:
        prove(name, bool(ok), info=info)
    witness("doc")
    return {"model": key, "checks": [c[0] for c in checks]}


def classify(task, ob):
    if task["fn"] == "t_doc":
        return f"doc:{task['args']['key']}:{ob['name']}"
    nm = ob["name"].split("[")[0]
    return f"formula:{task['args']['key']}:{nm}"


def replay(task, ob, model):
    key = task["args"]["key"]
    if task["fn"] == "t_doc":
        return common.REPLAY_HEAD + f'''
import specs
from nanite.model import models_available
doc = models_available[{key!r}].module.model_doc
bad = [c for c in specs.doc_checks({key!r}, doc) if c[0] == {ob["name"]!r} and not c[1]]
print(bad)
if bad:
    print("REPRODUCED: documented constants differ from the published formula")
    sys.exit(1)
sys.exit(0)
'''
    n = task["args"]["n"]
    p = {name: float(model.get(name, 0)) for name in specs.PARAMS[key]}
    delta = [float(model.get(f"delta{i}", 0)) for i in range(n)]
    return common.REPLAY_HEAD + f'''
import specs
from nanite.model import models_available
p = {p!r}
delta = np.array({delta!r}, dtype=float)
d0 = delta.copy()
got = models_available[{key!r}].module.model_func(delta, **p)
want = np.array(specs.force_float({key!r}, list(d0), p))
scale = max(1e-300, float(np.max(np.abs(want - p["baseline"]))), abs(p["baseline"]))
err = np.max(np.abs(got - want)) if got.shape == want.shape else np.inf
print("got ", got)
print("want", want)
if got.shape != want.shape or not (err <= 1e-9 * scale) or not np.array_equal(delta, d0):
    print("REPRODUCED: model differs from the published formula (err=%g, scale=%g)" % (err, scale))
    sys.exit(1)
sys.exit(0)
'''


def precheck(tier, seed):
    """Shim validation: real numpy vs symnp (concrete rationals) on the same
    inputs, for every model."""
    import random
    import numpy as np
    import importlib
    rnd = random.Random(seed)
    cases = 0
    ctx = core.Ctx()
    core.set_ctx(ctx)
    core.FLOAT_MODE[0] = True
    try:
        for key in specs.PARAMS:
            mod = _load(key)
            real_mod = importlib.import_module("nanite.model." + specs.MODEL_FILES[key])
            for _ in range(6):
                p = {}
                for name in specs.PARAMS[key]:
                    p[name] = {"E": 3000.0, "E_S": 2500.0, "E_L": 20.0, "R": 1e-5, "nu": 0.4,
                               "nu_S": 0.3, "nu_L": 0.25, "alpha": 25.0, "t": 1e-7,
                               "contact_point": 1e-7, "baseline": 1e-10}[name] * (0.5 + rnd.random())
                delta = [rnd.uniform(-2e-6, 1e-6) for _ in range(5)] + [p["contact_point"]]
                want = real_mod.model_func(np.array(delta), **p)
                got = mod.model_func(symnp.SymArr(delta), **p)
                for g, wv in zip(got.elems, want):
                    gv = _num(g, ctx)
                    if abs(gv - wv) > 1e-9 * max(abs(wv), 1e-300):
                        raise AssertionError(f"shim mismatch {key}: shim={gv} numpy={wv}")
                    cases += 1
    finally:
        core.set_ctx(None)
        core.FLOAT_MODE[0] = False
    return {"cases": cases, "what": "model_func: symnp(concrete rationals) vs real numpy, rel 1e-9"}


def _num(g, ctx):
    assert isinstance(g, (int, Fr, float)), f"concrete run produced a symbolic value: {g!r}"
    return float(g)
