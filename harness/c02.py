"""C02 - shipped models evaluate their published formulas."""
import re
from fractions import Fraction as Fr

from symx import core, symnp
from symx.core import real, assume, prove, witness, implies, check_assumptions

import specs
from harness import common

ID = "C02"
LEVEL = "other"
LAST_WORLD = None
EXPLANATION = (
    "Bounded symbolic verification: the unmodified model_func of each shipped "
    "model module is executed on an indentation array of N symbolic reals and a "
    "symbolic parameter vector inside the model's lmfit bounds (numpy -> symnp "
    "over z3 reals, sqrt/cube-root/tan as hash-consed auxiliaries). Per element "
    "the solver shows impl == literature formula (+baseline) in contact and "
    "impl == baseline off contact, for all reals; counterexamples are replayed "
    "on real numpy. Doc-consistency compares constants parsed from model_doc "
    "with the same oracle.")
ASSUMPTIONS = [
    "real arithmetic, not IEEE doubles; float literals read as the simplest rational rounding to them",
    "tan is an uninterpreted function shared by implementation and specification (argument equality is checked, numpy's tan itself is trusted)",
    "sqrt/x^(p/q) are axiomatised by v>=0, v^q=x^p for x>=0",
    "parameters inside the models' lmfit bounds with R>0, t>=1e-12, E_S>0 (Clifford), 0<alpha<90 (cone) / 30 (pyramid)",
    "prefactor overflow (E near 1e308) is outside the claim",
    "oracle: /verif/specs.py, hand transcription of Hertz/Sneddon/Bilodeau/Clifford formulas",
    "exact Sneddon sphere (thorough): Sneddon 1965 eqs 6.13/6.15 in the form delta/R = u atanh u, F/(E' R^2) = (1+u^2) atanh u - u; atanh enclosed piecewise (convexity), end points by a rational series with remainder bound",
]
BUDGET_S = {"quick": 600, "thorough": 2400}
QUERY_TIMEOUT_MS = {"quick": 60000, "thorough": 240000}


def bounds(tier):
    return {"N (array length)": [1, 3] if tier == "quick" else [1, 2, 3, 4, 6],
            "models": list(specs.PARAMS),
            "truncated series vs exact Sneddon sphere": "u = a/R in (0, 0.8337] split into %d sub-intervals; atanh enclosed between tangent and chord with rational end points; R=1, E/(1-nu^2)=1 plus homogeneity" % (len(sneddon_grid(tier)) - 1),
            "outside": "arrays longer than N; IEEE rounding"}


def tasks(tier):
    ns = [1, 3] if tier == "quick" else [1, 2, 3, 4, 6]
    ts = []
    for key in specs.PARAMS:
        for n in ns:
            ts.append({"name": f"formula:{key}:N{n}", "fn": "t_formula",
                       "args": {"key": key, "n": n},
                       "witnesses": ["in_contact", "off_contact", "vacuity_twin"]})
        ts.append({"name": f"doc:{key}", "fn": "t_doc", "args": {"key": key}})
    if True:   # cheap enough for every run (1-3 s per sub-interval)
        edges = sneddon_grid(tier)
        for k in range(len(edges) - 1):
            ts.append({"name": f"sneddon-exact:u[{float(edges[k]):.4f},{float(edges[k + 1]):.4f}]",
                       "fn": "t_sneddon_exact", "args": {"k": k}, "witnesses": ["interval"],
                       "timeout_ms": 300000})
        ts.append({"name": "sneddon-exact:homogeneity", "fn": "t_homogeneous",
                   "args": {"key": "sneddon_spher_approx"}, "witnesses": ["interval"]})
    return ts


# ---------------------------------------------------------------------------
# truncated Sneddon series vs the exact (implicit) Sneddon sphere solution
#
#   u = a/R, T = atanh(u):  delta/R = u*T,  F/(E' R^2) = (1+u^2)*T - u
#
# atanh is convex on [0,1): on each sub-interval [u_k, u_k+1] it lies above its
# tangent at u_k and below its chord; the end-point values are enclosed by
# rationals (odd series with a geometric remainder bound).

def _atanh_bounds(u, terms=400):
    """Rational (lo, hi) with lo <= atanh(u) <= hi for a rational 0 <= u < 1."""
    u = Fr(u)
    if u == 0:
        return Fr(0), Fr(0)
    tot = Fr(0)
    p = u
    u2 = u * u
    for j in range(terms):
        tot += p / (2 * j + 1)
        p *= u2
    rem = p / ((2 * terms + 1) * (1 - u2))
    # keep the numbers small: outward rounding to 1e-12
    q = 10 ** 12
    lo = Fr(int(tot * q), q)
    hi = Fr(int((tot + rem) * q) + 1, q)
    return lo, hi


def sneddon_grid(tier):
    """Sub-intervals of u covering delta/R = u*atanh(u) in (0, 1]."""
    # u* with u* atanh(u*) = 1 is 0.83355...; cover up to 0.8337
    edges = [Fr(0)]
    u = Fr(0)
    while u < Fr(8337, 10000):
        # chord-tangent gap ~ T''(u) h^2 / 8 must stay below ~2e-5
        t2 = float(2 * max(u, Fr(1, 20)) / (1 - u * u) ** 2)
        h = (8 * 2e-5 / t2) ** 0.5
        h = Fr(max(1, int(h * 10000)), 10000)
        u = min(u + h, Fr(8337, 10000))
        edges.append(u)
    return edges


def t_sneddon_exact(k):
    mod = _load("sneddon_spher_approx")
    edges = sneddon_grid("thorough")
    a, b = edges[k], edges[k + 1]
    Ta = _atanh_bounds(a)
    Tb = _atanh_bounds(b)
    u, T = real("u"), real("T")
    assume(u >= a)
    assume(u <= b)
    assume(u > 0)
    # tangent at a (below), chord through the end points (above)
    assume(T >= Ta[0] + (u - a) / (1 - a * a))
    assume(T <= Ta[1] + (Tb[1] - Ta[1]) * (u - a) / (b - a))
    x = u * T
    assume(x <= 1)          # depths up to the tip radius
    check_assumptions()
    out = mod.model_func(symnp.SymArr([Fr(0)]), E=1, R=1, nu=0, contact_point=x, baseline=0)
    series = out.elems[0]
    exact = (1 + u * u) * T - u
    # maximum force of the exact solution on (0, R]: F(u*) = 1/u* >= 1/0.8337
    fmax_lo = Fr(10000, 8337)
    import os
    tol = Fr(1, 10000) * fmax_lo * Fr(os.environ.get("C02_TOL_SCALE", "1"))
    prove("series-within-1e-4-of-max-exact-force", core.all_of([series - exact <= tol, exact - series <= tol]),
          info={"u interval": [str(a), str(b)]})
    witness("interval")
    return {"interval": [float(a), float(b)], "atanh(a)": float(Ta[0])}


def t_homogeneous(key):
    """F(l*delta; l*R) - b = l^2 (F(delta; R) - b): lifts the normalised
    Sneddon comparison (R = 1) to every tip radius."""
    mod = _load(key)
    p = common.sym_params(key)
    lam = real("lam")
    assume(lam > 0)
    d = real("delta0")
    check_assumptions()
    a = mod.model_func(symnp.SymArr([d]), **p).elems[0]
    q = dict(p, R=p["R"] * lam, contact_point=p["contact_point"] * lam)
    b = mod.model_func(symnp.SymArr([d * lam]), **q).elems[0]
    prove("quadratic-homogeneity-in-length", (b - p["baseline"]) == (a - p["baseline"]) * lam * lam)
    prove("linear-in-reduced-modulus",
          mod.model_func(symnp.SymArr([d]), **dict(p, E=p["E"] * lam)).elems[0] - p["baseline"]
          == (a - p["baseline"]) * lam)
    witness("interval")
    return {}


def _load(key):
    global LAST_WORLD
    w = common.model_world()
    LAST_WORLD = w
    return w.modules["nanite.model." + specs.MODEL_FILES[key]]


def t_formula(key, n):
    mod = _load(key)
    p = common.sym_params(key)
    delta = symnp.SymArr([real(f"delta{i}") for i in range(n)])
    check_assumptions()
    before = list(delta.elems)
    out = mod.model_func(delta, **p)
    assert isinstance(out, symnp.SymArr) and out.present is None
    prove("shape", len(out._idx) == n)
    # inputs not modified
    prove("input-unmodified", all(a is b for a, b in zip(before, delta.elems)))
    cp, bl = p["contact_point"], p["baseline"]
    for i in range(n):
        d = cp - before[i]
        spec = specs.contact_force(common.SymOps, key, d, p) + bl
        prove(f"contact[{i}]", implies(d > 0, out.elems[i] == spec))
        prove(f"offcontact[{i}]", implies(d <= 0, out.elems[i] == bl))
    # reachability / vacuity
    core.cur().model = None
    if core.cur().check([core.bv(cp - before[0] > 0)])[0] == "sat":
        core.cur().witnesses["in_contact"] = "sat"
    if core.cur().check([core.bv(cp - before[0] <= 0)])[0] == "sat":
        core.cur().witnesses["off_contact"] = "sat"
    # twin: the obligation 'False' must be refutable, i.e. the path is reachable
    r, _ = core.cur().check([])
    core.cur().witnesses["vacuity_twin"] = r
    return {"model": key, "N": n, "sample_impl_term": str(out.elems[0])[:300]}


def t_doc(key):
    mod = _load(key)
    checks = specs.doc_checks(key, mod.model_doc)
    for name, ok, info in checks:
        prove(name, bool(ok), info=info)
    witness("doc")
    return {"model": key, "checks": [c[0] for c in checks]}


def classify(task, ob):
    if task["fn"] in ("t_sneddon_exact", "t_homogeneous"):
        return "sneddon-exact:" + ob["name"]
    if task["fn"] == "t_doc":
        return f"doc:{task['args']['key']}:{ob['name']}"
    nm = ob["name"].split("[")[0]
    return f"formula:{task['args']['key']}:{nm}"


def replay(task, ob, model):
    if task["fn"] == "t_sneddon_exact":
        u = float(model.get("u", 0.5))
        return common.REPLAY_HEAD + f'''
import math
from nanite.model import models_available
f = models_available["sneddon_spher_approx"].module.model_func
us = np.linspace(max(1e-6, {u} - 0.01), min(0.8335, {u} + 0.01), 2001)
T = np.arctanh(us); x = us * T
exact = (1 + us**2) * T - us
series = f(np.zeros_like(x) , E=1.0, R=1.0, nu=0.0, contact_point=0.0, baseline=0.0) * 0
series = np.array([f(np.array([0.0]), E=1.0, R=1.0, nu=0.0, contact_point=xi, baseline=0.0)[0] for xi in x])
fmax = 1 / 0.83355
err = np.max(np.abs(series - exact)[x <= 1]) / fmax
print("max |series - exact| / Fmax near u =", {u}, ":", err)
if err > 1e-4:
    print("REPRODUCED: truncated series deviates from the exact Sneddon solution by more than 1e-4 of the maximum force"); sys.exit(1)
sys.exit(0)
'''
    if task["fn"] == "t_homogeneous":
        return None
    key = task["args"]["key"]
    if task["fn"] == "t_doc":
        return common.REPLAY_HEAD + f'''
import specs
from nanite.model import models_available
doc = models_available[{key!r}].module.model_doc
bad = [c for c in specs.doc_checks({key!r}, doc) if c[0] == {ob["name"]!r} and not c[1]]
print(bad)
if bad:
    print("REPRODUCED: documented constants differ from the published formula")
    sys.exit(1)
sys.exit(0)
'''
    n = task["args"]["n"]
    p = {name: float(model.get(name, 0)) for name in specs.PARAMS[key]}
    delta = [float(model.get(f"delta{i}", 0)) for i in range(n)]
    return common.REPLAY_HEAD + f'''
import specs
from nanite.model import models_available
p = {p!r}
delta = np.array({delta!r}, dtype=float)
d0 = delta.copy()
got = models_available[{key!r}].module.model_func(delta, **p)
want = np.array(specs.force_float({key!r}, list(d0), p))
scale = max(1e-300, float(np.max(np.abs(want - p["baseline"]))), abs(p["baseline"]))
err = np.max(np.abs(got - want)) if got.shape == want.shape else np.inf
print("got ", got)
print("want", want)
if got.shape != want.shape or not (err <= 1e-9 * scale) or not np.array_equal(delta, d0):
    print("REPRODUCED: model differs from the published formula (err=%g, scale=%g)" % (err, scale))
    sys.exit(1)
sys.exit(0)
'''


def precheck(tier, seed):
    """Shim validation: real numpy vs symnp (concrete rationals) on the same
    inputs, for every model."""
    import random
    import numpy as np
    import importlib
    rnd = random.Random(seed)
    cases = 0
    ctx = core.Ctx()
    core.set_ctx(ctx)
    core.FLOAT_MODE[0] = True
    try:
        for key in specs.PARAMS:
            mod = _load(key)
            real_mod = importlib.import_module("nanite.model." + specs.MODEL_FILES[key])
            for _ in range(6):
                p = {}
                for name in specs.PARAMS[key]:
                    p[name] = {"E": 3000.0, "E_S": 2500.0, "E_L": 20.0, "R": 1e-5, "nu": 0.4,
                               "nu_S": 0.3, "nu_L": 0.25, "alpha": 25.0, "t": 1e-7,
                               "contact_point": 1e-7, "baseline": 1e-10}[name] * (0.5 + rnd.random())
                delta = [rnd.uniform(-2e-6, 1e-6) for _ in range(5)] + [p["contact_point"]]
                want = real_mod.model_func(np.array(delta), **p)
                got = mod.model_func(symnp.SymArr(delta), **p)
                for g, wv in zip(got.elems, want):
                    gv = _num(g, ctx)
                    if abs(gv - wv) > 1e-9 * max(abs(wv), 1e-300):
                        raise AssertionError(f"shim mismatch {key}: shim={gv} numpy={wv}")
                    cases += 1
    finally:
        core.set_ctx(None)
        core.FLOAT_MODE[0] = False
    return {"cases": cases, "what": "model_func: symnp(concrete rationals) vs real numpy, rel 1e-9"}


def _num(g, ctx):
    assert isinstance(g, (int, Fr, float)), f"concrete run produced a symbolic value: {g!r}"
    return float(g)
