"""C20 - loading yields one object per curve; map features read the current values."""
import types
import warnings
from fractions import Fraction as Fr

from symx import core, symnp, symlmfit, worlds
from symx.core import prove, witness, check_assumptions, real, assume, same, all_of, is_nan

from harness import common

ID = "C20"
LEVEL = "other"
LAST_WORLD = None
EXPLANATION = (
    "Symbolic execution of nanite's loader wrappers and map features: "
    "read.load_data / get_load_data_modality_kwargs, group.load_group / "
    "IndentationGroup.__init__/append (on the real afmformats AFMGroup class) and "
    "qmap.QMap.feat_fit_youngs_modulus / feat_fit_contact_point / feat_meta_rating "
    "(through afmformats' real qmap_feature decorator). afmformats.find_data / "
    "load_data are contract stubs: n<=3 paths, m_i<=3 curves per file, the "
    "per-file progress callback is called with an arbitrary non-decreasing pair "
    "of solver reals in [0,1]. z3 shows the progress values seen by the user lie "
    "in [0,1] and never decrease across files; the result is the concatenation in "
    "path order, one Indentation per curve; append refuses exactly the curves with "
    "neither spring constant nor tip position; for symbolic fitted values and "
    "every curve state the map features return E in Pa, contact point * 1e9 and "
    "the cached rating, NaN with DataMissingWarning exactly when unfitted / "
    "unsuccessful / unrated, and re-read the current value after a refit.")
ASSUMPTIONS = [
    "afmformats.find_data/load_data are stubs constrained only by their documented contract (callback with values in [0,1], non-decreasing; list of curves with enums 0..m-1)",
    "parsing of measurement files and the pixel-grid placement (AFMQMap._map_grid/get_qmap) are afmformats code and outside the claim",
]
BUDGET_S = {"quick": 600, "thorough": 1200}
QUERY_TIMEOUT_MS = {"quick": 30000, "thorough": 60000}


def bounds(tier):
    return {"files n": [1, 2, 3] if tier == "quick" else [1, 2, 3, 4, 5, 6], "curves per file": "1..3", "progress calls per file": 2 if tier == "quick" else 4,
            "curve states": ["unfitted", "unsuccessful", "fitted", "fitted+rated", "fitted+rated-with-other-settings", "refitted"]}


def tasks(tier):
    ts = []
    for n in ((1, 2, 3) if tier == "quick" else (1, 2, 3, 4, 5, 6)):
        ts.append({"name": f"load:n{n}", "fn": "t_load", "args": {"n": n, "calls": 2 if tier == "quick" else 4},
                   "witnesses": ["loaded"]})
    ts.append({"name": "load:no-callback", "fn": "t_load", "args": {"n": 2, "with_cb": False}})
    for sc in (False, True):
        for tp in (False, True):
            ts.append({"name": f"append:spring={sc}:tip={tp}", "fn": "t_append", "args": {"sc": sc, "tp": tp}})
    for st in ("unfitted", "unsuccessful", "fitted", "fitted+rated", "fitted+rated-with-other-settings", "refitted"):
        ts.append({"name": f"qmap:{st}", "fn": "t_qmap", "args": {"state": st}, "witnesses": ["feature"]})
    return ts


def _world():
    global LAST_WORLD
    import afmformats.meta as real_meta
    meta = types.ModuleType("afmformats.meta")
    meta.MetaData = common.PlainMeta
    meta.META_FIELDS = real_meta.META_FIELDS
    fmts = types.ModuleType("afmformats.formats")
    fmts.load_data = lambda *a, **k: []
    w = worlds.standard_world(extra_shims={"afmformats.meta": meta, "afmformats.formats": fmts})
    afm = w.modules["afmformats"]
    fd = w.load("afmformats.mod_force_distance")
    afm.AFMForceDistance = fd.AFMForceDistance
    afm.AFMData = w.modules["afmformats.afm_data"].AFMData
    afm.AFMGroup = w.load("afmformats.afm_group").AFMGroup
    q = w.load("afmformats.afm_qmap")
    afm.AFMQMap = q.AFMQMap
    afm.afm_qmap = q
    import afmformats.errors as real_err
    afm.errors = real_err
    afm.find_data = lambda path, modality=None: []
    afm.load_data = fmts.load_data
    w.load("nanite.model")
    w.load("nanite.indent")
    w.load("nanite.read")
    w.load("nanite.group")
    w.load("nanite.qmap")
    LAST_WORLD = w
    return w, afm


def _curve(w, enum, path, sc=True, tp=True):
    n = 3
    cols = {"force": symnp.SymArr([Fr(0)] * n), "height (measured)": symnp.SymArr([Fr(0)] * n),
            "segment": symnp.SymArr([0] * n, dtype=symnp.uint8)}
    if tp:
        cols["tip position"] = symnp.SymArr([Fr(0)] * n)
    return common.make_indentation(w, cols, spring_constant=(Fr(1, 10) if sc else None), path=path, enum=enum)


def t_load(n, with_cb=True, calls=2):
    w, afm = _world()
    read = w.modules["nanite.read"]
    Ind = w.modules["nanite.indent"].Indentation
    paths = [f"/data/file{i}.jpk-force" for i in range(n)]
    counts = [1 + (i % 3) for i in range(n)]
    seen_kwargs = []
    prog = []

    def find_data(path, modality=None):
        seen_kwargs.append(("find", modality))
        return list(paths)

    def load_data(path, callback=None, meta_override=None, modality=None,
                  data_classes_by_modality=None):
        i = paths.index(path)
        seen_kwargs.append(("load", modality, data_classes_by_modality, meta_override))
        vals = [real(f"p{i}{chr(97 + j)}") for j in range(calls)]
        assume(vals[0] >= 0)
        for a_, b_ in zip(vals, vals[1:]):
            assume(b_ >= a_)
        assume(vals[-1] <= 1)
        if callback is not None:
            for v in vals:
                callback(v)
        cls = data_classes_by_modality[modality]
        return [_curve(w, e, path) for e in range(counts[i])] if cls is Ind else ["wrong class"]
    afm.find_data = find_data
    afm.load_data = load_data
    check_assumptions()
    mo = {"spring constant": Fr(1, 5)}
    data = read.load_data("/data", callback=(prog.append if with_cb else None), meta_override=mo)
    witness("loaded")
    prove("one-object-per-curve", len(data) == sum(counts) and all(isinstance(d, Ind) for d in data))
    exp = [(p, e) for p, c in zip(paths, counts) for e in range(c)]
    prove("file-order-and-enums", [(str(d.path), d.enum) for d in data] == exp)
    prove("force-distance-modality-requested", all(k[1] == "force-distance" for k in seen_kwargs))
    prove("meta-override-passed-through", all(k[3] is mo for k in seen_kwargs if k[0] == "load"))
    if with_cb:
        prove("progress-count", len(prog) == calls * n)
        for j, pv in enumerate(prog):
            prove(f"progress-in-unit-interval[{j}]", all_of([pv >= 0, pv <= 1]))
            if j:
                prove(f"progress-non-decreasing[{j}]", pv >= prog[j - 1])
    else:
        prove("no-callback-no-error", True)
    # the group wrapper
    grp = w.modules["nanite.group"].load_group("/data", callback=None)
    prove("group-holds-the-same-curves", [(str(d.path), d.enum) for d in grp] == exp)
    return {"n": n, "curves": sum(counts)}


def t_append(sc, tp):
    w, afm = _world()
    grpmod = w.modules["nanite.group"]
    g = grpmod.IndentationGroup()
    c = _curve(w, 0, "/data/x.jpk-force", sc=sc, tp=tp)
    try:
        g.append(c)
        err = None
    except BaseException as e:   # noqa: BLE001
        err = e
    refuse = (not sc) and (not tp)
    prove("refused-iff-neither-spring-constant-nor-tip-position",
          (err is not None) == refuse and (err is None or isinstance(err, afm.errors.MissingMetaDataError)),
          info={"error": repr(err)[:100]})
    prove("group-content", len(g) == (0 if refuse else 1))
    witness("append")
    return {"sc": sc, "tp": tp}


def t_qmap(state):
    w, afm = _world()
    qm = w.modules["nanite.qmap"]
    c = _curve(w, 0, "/data/x.jpk-force")
    fp = c.fit_properties
    md = w.modules["nanite.model"].models_available["hertz_para"]
    E, cp, rt = real("E"), real("cp"), real("rating")
    assume(E >= 0)
    check_assumptions()
    if state != "unfitted":
        dict.__setitem__(fp, "success", state != "unsuccessful")
        P = md.get_parameter_defaults()
        P["E"].value, P["contact_point"].value = E, cp
        if state != "unsuccessful":
            dict.__setitem__(fp, "params_fitted", P)
    rated = state.startswith("fitted+rated")
    if rated:
        # the curve's current rating, computed for its current fit (hash "h") with
        # the default or with other rating settings; a rater built now would
        # return some other value
        dict.__setitem__(fp, "hash", "h")
        rating0 = (("h", "Extra Trees", "zef18", None, None, rt) if state == "fitted+rated"
                   else ("h", "AdaBoost", "/my/training/set", ["feat_con_apr_sum", "feat_bin_size"], True, rt))
        c._rating = rating0
        other = real("another_rating")

        class _Rater:
            def rate(self, datasets=None, **k):
                return [other]
        w.modules["nanite.indent"].get_rater = lambda **k: _Rater()

    def call(f):
        with warnings.catch_warnings(record=True) as wl:
            warnings.simplefilter("always")
            v = f(c)
        return v, [x for x in wl if issubclass(x.category, qm.DataMissingWarning)]
    vE, wE = call(qm.QMap.feat_fit_youngs_modulus)
    vC, wC = call(qm.QMap.feat_fit_contact_point)
    vR, wR = call(qm.QMap.feat_meta_rating)
    witness("feature")
    fitted = state in ("fitted", "fitted+rated", "fitted+rated-with-other-settings", "refitted")
    if fitted:
        prove("modulus-in-Pa", same(vE, E) and not wE)
        prove("contact-point-in-nm", same(vC, cp * 10**9) and not wC)
    else:
        prove("nan-and-warning-when-not-fitted", is_nan(vE) and is_nan(vC) and len(wE) == 1 and len(wC) == 1)
    if rated:
        prove("cached-rating", same(vR, rt) and not wR)
        prove("curve-rating-not-overwritten", c._rating is rating0 or
              (tuple(c._rating[:5]) == tuple(rating0[:5]) and same(c._rating[5], rt)))
    else:
        prove("nan-and-warning-when-unrated", is_nan(vR) and len(wR) == 1)
    if state == "refitted":
        E2 = real("E2")
        assume(E2 >= 0)
        P2 = md.get_parameter_defaults()
        P2["E"].value, P2["contact_point"].value = E2, cp + 1
        dict.__setitem__(fp, "params_fitted", P2)
        v2, _ = call(qm.QMap.feat_fit_youngs_modulus)
        v3, _ = call(qm.QMap.feat_fit_contact_point)
        prove("refit-is-re-read", same(v2, E2) and same(v3, (cp + 1) * 10**9))
        dict.__setitem__(fp, "success", False)
        v4, w4 = call(qm.QMap.feat_fit_youngs_modulus)
        prove("failed-refit-gives-nan", is_nan(v4) and len(w4) == 1)
    prove("units-declared", qm.QMap.feat_fit_youngs_modulus.unit == "Pa"
          and qm.QMap.feat_fit_contact_point.unit == "nm")
    return {"state": state}


def classify(task, ob):
    return f"{task['fn']}:{ob['name'].split('[')[0]}"


def replay(task, ob, model):
    a = task["args"]
    g = lambda nm, d=0.0: float(model.get(nm, d))
    if task["fn"] == "t_load":
        n = a["n"]
        pr = [[g(f"p{i}a"), g(f"p{i}b", 1.0)] for i in range(n)]
        return common.REPLAY_HEAD + f'''
import afmformats, nanite, nanite.read as read, nanite.group as group
n = {n}; pr = {pr!r}; with_cb = {a.get("with_cb", True)!r}
paths = [f"/data/file{{i}}.jpk-force" for i in range(n)]; counts = [1 + (i % 3) for i in range(n)]
def curve(e, p):
    z = np.zeros(3)
    return nanite.Indentation(data={{"force": z, "height (measured)": z, "tip position": z, "segment": np.zeros(3, dtype=np.uint8)}},
                              metadata={{"path": p, "enum": e, "point count": 3, "imaging mode": "force-distance", "spring constant": 0.1}})
def find_data(path, modality=None): return list(paths)
def load_data(path, callback=None, meta_override=None, modality=None, data_classes_by_modality=None):
    i = paths.index(path)
    if callback is not None:
        callback(pr[i][0]); callback(pr[i][1])
    return [curve(e, path) for e in range(counts[i])]
afmformats.find_data = find_data; afmformats.load_data = load_data
read.afmformats.find_data = find_data; read.afmformats.load_data = load_data
prog = []
data = read.load_data("/data", callback=(prog.append if with_cb else None))
bad = []
exp = [(p, e) for p, c in zip(paths, counts) for e in range(c)]
if [(str(d.path), d.enum) for d in data] != exp: bad.append("order/enums")
if with_cb and (len(prog) != 2 * n or any(not (0 <= v <= 1) for v in prog) or any(b < a_ for a_, b in zip(prog, prog[1:]))):
    bad.append("progress values %r" % (prog,))
print({ob["name"]!r}, bad)
if bad:
    print("REPRODUCED"); sys.exit(1)
sys.exit(0)
'''
    if task["fn"] == "t_append":
        return common.REPLAY_HEAD + f'''
import nanite, nanite.group as group
from afmformats.errors import MissingMetaDataError
z = np.zeros(3)
data = {{"force": z, "height (measured)": z, "segment": np.zeros(3, dtype=np.uint8)}}
if {a["tp"]!r}: data["tip position"] = z
md = {{"path": "/d/x.jpk-force", "enum": 0, "point count": 3, "imaging mode": "force-distance"}}
if {a["sc"]!r}: md["spring constant"] = 0.1
c = nanite.Indentation(data=data, metadata=md)
g = group.IndentationGroup()
try:
    g.append(c); err = None
except BaseException as e:
    err = e
refuse = not {a["sc"]!r} and not {a["tp"]!r}
if (err is not None) != refuse or (err is not None and not isinstance(err, MissingMetaDataError)) or len(g) != (0 if refuse else 1):
    print("REPRODUCED: append refused=%s expected=%s (%r)" % (err is not None, refuse, err)); sys.exit(1)
sys.exit(0)
'''
    st = a["state"]
    return common.REPLAY_HEAD + f'''
import nanite, warnings
from nanite.qmap import QMap, DataMissingWarning
from nanite.model import models_available
z = np.zeros(3)
c = nanite.Indentation(data={{"force": z, "tip position": z, "segment": np.zeros(3, dtype=np.uint8)}},
                       metadata={{"path": "/d/x.jpk-force", "enum": 0, "point count": 3, "imaging mode": "force-distance", "spring constant": 0.1}})
state = {st!r}; E = {g("E", 1234.5)!r}; cp = {g("cp", 2e-7)!r}; rt = {g("rating", 4.5)!r}
fp = c.fit_properties
if state != "unfitted":
    dict.__setitem__(fp, "success", state != "unsuccessful")
    P = models_available["hertz_para"].get_parameter_defaults(); P["E"].value = E; P["contact_point"].value = cp
    if state != "unsuccessful": dict.__setitem__(fp, "params_fitted", P)
rated = state.startswith("fitted+rated")
if rated:
    dict.__setitem__(fp, "hash", "h")
    c._rating = ("h", "Extra Trees", "zef18", None, None, rt) if state == "fitted+rated" else ("h", "AdaBoost", "/my/training/set", ["feat_con_apr_sum", "feat_bin_size"], True, rt)
    rating0 = c._rating
    import nanite.indent as _ind
    class _Rater:
        def rate(self, datasets=None, **k): return [rt + 1.25]
    _ind.get_rater = lambda **k: _Rater()
def call(f):
    with warnings.catch_warnings(record=True) as wl:
        warnings.simplefilter("always"); v = f(c)
    return v, [x for x in wl if issubclass(x.category, DataMissingWarning)]
vE, wE = call(QMap.feat_fit_youngs_modulus); vC, wC = call(QMap.feat_fit_contact_point); vR, wR = call(QMap.feat_meta_rating)
bad = []
fitted = state in ("fitted", "fitted+rated", "fitted+rated-with-other-settings", "refitted")
if fitted:
    if vE != E or wE: bad.append("modulus %r" % vE)
    if abs(vC - cp * 1e9) > 1e-9 * abs(cp * 1e9) or wC: bad.append("contact point %r" % vC)
else:
    if not (np.isnan(vE) and np.isnan(vC) and len(wE) == 1 and len(wC) == 1): bad.append("unfitted: %r %r" % (vE, vC))
if rated:
    if vR != rt or wR: bad.append("rating %r instead of the curve's %r" % (vR, rt))
    if c._rating != rating0: bad.append("curve rating overwritten: %r" % (c._rating,))
elif not (np.isnan(vR) and len(wR) == 1): bad.append("unrated: %r" % vR)
if state == "refitted":
    P2 = models_available["hertz_para"].get_parameter_defaults(); P2["E"].value = E + 11; P2["contact_point"].value = cp
    dict.__setitem__(fp, "params_fitted", P2)
    if call(QMap.feat_fit_youngs_modulus)[0] != E + 11: bad.append("stale value after refit")
    dict.__setitem__(fp, "success", False)
    if not np.isnan(call(QMap.feat_fit_youngs_modulus)[0]): bad.append("value shown after failed refit")
print({ob["name"]!r}, bad)
if bad:
    print("REPRODUCED"); sys.exit(1)
sys.exit(0)
'''
