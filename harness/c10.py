"""C10 - arguments are taken by value (no mutation, no aliasing)."""
import copy
from fractions import Fraction as Fr

from symx import core, symnp, symlmfit
from symx.core import (real, assume, prove, witness, implies, check_assumptions,
                       sym_ite, same, is_nan, all_of, any_of)

import specs
from harness import common, fitcommon as fc

ID = "C10"
LEVEL = "other"
LAST_WORLD = None
EXPLANATION = (
    "Bounded symbolic verification on the real entry points with argument objects "
    "whose leaves are solver variables. No-mutation: after fit_model (absolute and "
    "4-pass relative-cp ranges, k symbolic) every attribute of every caller "
    "parameter and the range/method_kws/preprocessing containers are term-identical "
    "to their pre-state; compute_poc, the model/residual wrappers and "
    "compute_contact_point_weights leave their arrays unchanged. No-aliasing: "
    "two-step histories call(x); edit x in place; call(x) are compared with a twin "
    "curve that receives a fresh equal-valued copy - same number of optimiser "
    "runs / pipeline runs and term-equal visible settings and columns - for "
    "params_initial, the object returned by get_initial_fit_parameters, option "
    "dictionaries and step lists.")
ASSUMPTIONS = fc.STUBS + [
    "preprocessing steps are abstract (deterministic uninterpreted effect per (step, options)); their real registration data and the real preproc.apply are used",
    "N=6 samples; edits are symbolic value changes (new value != old value)",
]
BUDGET_S = {"quick": 1200, "thorough": 3000}
QUERY_TIMEOUT_MS = {"quick": 60000, "thorough": 180000}


def bounds(tier):
    return {"N": 6, "histories": "call; in-place edit; call (k=2 calls) vs twin with deep copies",
            "outside": "third-party objects' internals; longer histories (C03)"}


def tasks(tier):
    ts = [
        {"name": "mut:fit:absolute", "fn": "t_mut_fit", "args": {"mode": "absolute"},
         "witnesses": ["fitted"]},
        {"name": "mut:fit:relative cp", "fn": "t_mut_fit", "args": {"mode": "relative cp"},
         "witnesses": ["fitted"], "max_paths": 6000},
        {"name": "mut:poc:deviation_from_baseline", "fn": "t_mut_poc",
         "args": {"method": "deviation_from_baseline", "n": 10}, "witnesses": ["poc"]},
        {"name": "mut:poc:frechet_direct_path", "fn": "t_mut_poc",
         "args": {"method": "frechet_direct_path", "n": 5}, "witnesses": ["poc"]},
        {"name": "alias:params_initial:passed", "fn": "t_alias_params", "args": {"how": "passed"},
         "witnesses": ["second-call"]},
        {"name": "alias:params_initial:returned", "fn": "t_alias_params", "args": {"how": "returned"},
         "witnesses": ["second-call"]},
        {"name": "alias:params_initial:vary-edit", "fn": "t_alias_params", "args": {"how": "passed", "edit": "vary"},
         "witnesses": ["second-call"]},
        {"name": "alias:params_initial:bound-edit", "fn": "t_alias_params", "args": {"how": "passed", "edit": "bound"},
         "witnesses": ["second-call"]},
        {"name": "alias:params_initial:direct-edit", "fn": "t_alias_params", "args": {"how": "passed", "via": "setitem"},
         "witnesses": ["second-call"]},
        {"name": "alias:params_initial:direct-edit:vary-edit", "fn": "t_alias_params",
         "args": {"how": "passed", "edit": "vary", "via": "setitem"}, "witnesses": ["second-call"]},
        {"name": "alias:returned:available-steps", "fn": "t_alias_available", "args": {}, "witnesses": ["second-call"]},
        {"name": "alias:rating:names", "fn": "t_alias_names", "args": {}, "witnesses": ["second-call"]},
        {"name": "alias:preproc:options", "fn": "t_alias_preproc", "args": {"what": "options"},
         "witnesses": ["second-call"]},
        {"name": "alias:preproc:steps", "fn": "t_alias_preproc", "args": {"what": "steps"},
         "witnesses": ["second-call"]},
        {"name": "alias:fit:preprocessing-kwargs", "fn": "t_alias_preproc", "args": {"what": "fit-options"},
         "witnesses": ["second-call"]},
        {"name": "alias:preproc:options-with-unused-entry", "fn": "t_alias_preproc", "args": {"what": "unused-entry"},
         "witnesses": ["second-call"]},
        {"name": "alias:fit:options-with-unused-entry", "fn": "t_alias_preproc", "args": {"what": "fit-unused-entry"},
         "witnesses": ["second-call"]},
    ]
    for m in (["hertz_para", "power_layer_clifford_2009"] if tier == "quick" else list(specs.PARAMS)):
        ts.append({"name": f"mut:residual:{m}", "fn": "t_mut_residual", "args": {"model_key": m},
                   "witnesses": ["residual"]})
    return ts


def _snap(v):
    """Structural snapshot of an argument (leaves kept by identity)."""
    if isinstance(v, dict):
        return ("dict", [(k, _snap(x)) for k, x in v.items()])
    if isinstance(v, (list, tuple)):
        return (type(v).__name__, [_snap(x) for x in v])
    if isinstance(v, symnp.SymArr):
        return ("arr", list(v.elems))
    return ("leaf", v)


def _snap_eq(a, b):
    if a[0] != b[0]:
        return False
    if a[0] == "leaf":
        u, v = a[1], b[1]
        if u is v:
            return True
        if isinstance(u, (str, type(None))) or isinstance(v, (str, type(None))):
            return u == v
        return same(u, v)
    if a[0] == "dict":
        if [k for k, _ in a[1]] != [k for k, _ in b[1]]:
            return False
        return all_of([_snap_eq(x, y) for (_, x), (_, y) in zip(a[1], b[1])])
    if len(a[1]) != len(b[1]):
        return False
    if a[0] == "arr":
        return all_of([same(x, y) for x, y in zip(a[1], b[1])])
    return all_of([_snap_eq(x, y) for x, y in zip(a[1], b[1])])


def _pstate(P):
    return {nm: p.__getstate__()[:7] for nm, p in P.items()}


def _pstate_eq(s0, s1):
    if list(s0) != list(s1):
        return False
    conds = []
    for nm in s0:
        for u, v in zip(s0[nm], s1[nm]):
            if isinstance(u, (str, type(None), bool)) or isinstance(v, (str, type(None), bool)):
                conds.append(u == v)
            else:
                conds.append(same(u, v))
    return all_of(conds)


def t_mut_fit(mode):
    global LAST_WORLD
    w, idnt, x, y, seg, P, init = fc.setup("4+2", "hertz_cone", ["E", "contact_point"] if mode == "absolute" else ["E"])
    LAST_WORLD = w
    common.install_abstract_steps(w)
    a, b = real("ra"), real("rb")
    k = real("k")
    assume(k > 0)
    wcp = real("weight_cp")
    assume(wcp > 0)
    check_assumptions()
    rng = [a, b]
    mkws = {}
    steps = ["correct_force_offset"]
    opts = {"correct_force_offset": {}}
    pre = {"range_x": _snap(rng), "method_kws": _snap(mkws), "preprocessing": _snap(steps),
           "preprocessing_options": _snap(opts)}
    s0 = _pstate(P)
    cols0 = {c: list(idnt._raw_data[c].elems) for c in ("force", "tip position")}
    try:
        idnt.fit_model(model_key="hertz_cone", params_initial=P, range_x=rng, range_type=mode,
                       segment=0, weight_cp=wcp, gcf_k=k, method_kws=mkws,
                       preprocessing=steps, preprocessing_options=opts)
        witness("fitted")
    except KeyError as e:
        core.note(f"KeyError {e}")
    core.count("transitions")
    prove("params_initial-unchanged", _pstate_eq(s0, _pstate(P)))
    prove("range_x-unchanged", _snap_eq(pre["range_x"], _snap(rng)))
    prove("method_kws-unchanged", _snap_eq(pre["method_kws"], _snap(mkws)))
    prove("preprocessing-unchanged", _snap_eq(pre["preprocessing"], _snap(steps)))
    prove("preprocessing_options-unchanged", _snap_eq(pre["preprocessing_options"], _snap(opts)))
    for c in cols0:
        prove(f"raw-{c}-unchanged", all(u is v for u, v in zip(cols0[c], idnt._raw_data[c].elems)))
    return {"mode": mode, "optimiser_calls": len(symlmfit.CALLS)}


def t_mut_poc(method, n):
    global LAST_WORLD
    w = common.indent_world()
    LAST_WORLD = w
    poc = w.modules["nanite.poc"]
    f = [real(f"f{i}") for i in range(n)]
    force = symnp.SymArr(list(f))
    check_assumptions()
    try:
        poc.compute_poc(force, method=method)
    except ValueError as e:
        core.note(f"ValueError {e}")
    witness("poc")
    prove("force-unchanged", len(force._idx) == n and all(u is v for u, v in zip(f, force.elems)))
    return {"method": method}


def t_mut_residual(model_key):
    global LAST_WORLD
    w = common.model_world()
    LAST_WORLD = w
    md = w.modules["nanite.model"].models_available[model_key]
    res = w.modules["nanite.model.residuals"]
    p = common.sym_params(model_key)
    n = 3
    xs = [real(f"x{i}") for i in range(n)]
    ys = [real(f"y{i}") for i in range(n)]
    wcp = real("weight_cp")
    assume(wcp > 0)
    check_assumptions()
    P = md.get_parameter_defaults()
    for nm in p:
        P[nm].value = p[nm]
    s0 = _pstate(P)
    x = symnp.SymArr(list(xs))
    y = symnp.SymArr(list(ys))
    md.residual(P, x, y, wcp)
    md.model(P, x)
    res.compute_contact_point_weights(p["contact_point"], x, wcp)
    witness("residual")
    prove("delta-unchanged", all(u is v for u, v in zip(xs, x.elems)))
    prove("force-unchanged", all(u is v for u, v in zip(ys, y.elems)))
    prove("params-unchanged", _pstate_eq(s0, _pstate(P)))
    return {"model": model_key}


def _twin(w, x, y, seg, extra=None):
    cols = {"tip position": symnp.SymArr(list(x)), "force": symnp.SymArr(list(y)),
            "segment": symnp.SymArr(seg, dtype=symnp.uint8)}
    if extra:
        cols.update({k: symnp.SymArr(list(v)) for k, v in extra.items()})
    return common.make_indentation(w, cols, spring_constant=Fr(1, 10))


def _visible(idnt):
    fp = idnt.fit_properties
    out = {}
    for key in ("params_initial", "params_fitted"):
        out[key] = _pstate(fp[key]) if fp.get(key) is not None else None
    for key in ("chi_sqr", "success", "preprocessing", "preprocessing_options", "range_x"):
        out[key] = _snap(fp.get(key))
    for c in ("force", "tip position", "fit"):
        out["col:" + c] = list(idnt[c].elems) if c in idnt else None
    return out


def _visible_eq(a, b):
    conds = []
    for key in a:
        u, v = a[key], b[key]
        if u is None or v is None:
            conds.append(u is None and v is None)
        elif key.startswith("params"):
            conds.append(_pstate_eq(u, v))
        elif key.startswith("col:"):
            conds.append(len(u) == len(v) and all_of([same(p, q) for p, q in zip(u, v)]))
        else:
            conds.append(_snap_eq(u, v))
    return all_of(conds)


def t_alias_params(how, edit="value", via="kwarg"):
    """fit(P); edit P in place; fit(P)  vs  twin: fit(copy0); fit(copy of edited P).
    via="setitem": P is handed over by a direct edit fit_properties["params_initial"] = P."""
    global LAST_WORLD
    w, idnt, x, y, seg, P, init = fc.setup("4+2", "hertz_cone", ["E"])
    LAST_WORLD = w
    idnt2 = _twin(w, x, y, seg)
    newE = real("newE")
    assume(newE >= 0)
    assume(newE != init["E"])
    check_assumptions()
    # the optimiser is a function of what it is given: same inputs, same output
    memo = {}

    def policy(rec, name, p):
        key = (name, tuple(str(s[:7]) for s in rec["params_state"]))
        return memo.setdefault(key, None)
    kw = dict(model_key="hertz_cone", range_x=[0, 0], range_type="absolute", segment=0,
              weight_cp=0, gcf_k=1)
    outs = _FunctionalOptimiser()
    symlmfit.MINIMIZE_POLICY[0] = outs
    if how == "returned":
        idnt.fit_properties["model_key"] = "hertz_cone"
        idnt.fit_properties["params_initial"] = P
        P1 = idnt.get_initial_fit_parameters()
    else:
        P1 = P
    P0 = copy.deepcopy(P1)

    def fit(curve, params):
        if via == "setitem":
            curve.fit_properties["model_key"] = "hertz_cone"
            curve.fit_properties["params_initial"] = params
            curve.fit_model(**kw)
        else:
            curve.fit_model(params_initial=params, **kw)
    fit(idnt, P1)
    n1 = len(symlmfit.CALLS)
    if edit == "value":
        P1["E"].value = newE
    elif edit == "vary":
        P1["baseline"].vary = True        # same values, another parameter varied
    else:
        P1["E"].set(max=newE + init["E"] + 1)   # same values, another bound
    fit(idnt, P1)
    n2 = len(symlmfit.CALLS)
    witness("second-call")
    # twin with fresh equal-valued objects
    fit(idnt2, copy.deepcopy(P0))
    m1 = len(symlmfit.CALLS)
    fit(idnt2, copy.deepcopy(P1))
    m2 = len(symlmfit.CALLS)
    core.count("transitions", 4)
    prove("edit-noticed:same-optimiser-runs-as-fresh-copy", (n2 - n1) == (m2 - m1),
          info={"runs_same_object": n2 - n1, "runs_fresh_copy": m2 - m1})
    prove("edit-noticed:visible-state-equals-fresh-copy", _visible_eq(_visible(idnt), _visible(idnt2)))
    # a changed value / vary flag / bound is a changed setting: results are recomputed
    prove("edit-noticed:one-new-optimisation", (n2 - n1) == 1, info={"runs": n2 - n1})
    if edit == "value":
        prove("stored-initial-parameters-hold-the-new-value",
              same(idnt.fit_properties["params_initial"]["E"].value, newE))
    else:
        prove("stored-initial-parameters-hold-the-edited-attributes",
              _pstate_eq(_pstate(idnt.fit_properties["params_initial"]), _pstate(P1)))
    return {"how": how, "runs_same_object": n2 - n1, "runs_fresh_copy": m2 - m1}


def t_alias_available():
    """L = preproc.available(); the caller edits L in place (solver-chosen
    element removed, another one appended); later calls behave as before."""
    global LAST_WORLD
    w = common.indent_world()
    LAST_WORLD = w
    pp = w.modules["nanite.preproc"]
    first = list(pp.available())
    i = core.integer("removed_index")
    assume(i >= 0)
    assume(i < len(first))
    check_assumptions()
    L = pp.available()
    k = core.concretize(i)
    del L[k]
    L.append("my_own_step")
    second = pp.available()
    witness("second-call")
    prove("returned-list-not-aliased-to-library-state", list(second) == first,
          info={"removed": first[k], "available afterwards": list(second)})
    prove("removed-step-still-known", pp.get_func(first[k]).identifier == first[k] and first[k] in pp.available())
    try:
        pp.check_order(list(first))
        ok = True
    except ValueError:
        ok = False
    prove("full-list-still-valid", ok)
    try:
        pp.autosort(["my_own_step"])
        unknown_rejected = False
    except (KeyError, ValueError):
        unknown_rejected = True
    prove("callers-own-identifier-not-accepted-as-a-step", unknown_rejected)
    return {"removed": first[k]}


def t_alias_names():
    """rate_quality(names=L); edit L in place; rate_quality(names=L): the
    edit must be noticed like a fresh equal-valued list."""
    global LAST_WORLD
    from harness import c09
    w, idnt, fvals, made, pred, names_all, get_rater = c09._setup("fitted")
    LAST_WORLD = w
    check_assumptions()
    L = ["feat_con_apr_sum", "feat_bin_size"]
    idnt.rate_quality(names=L)
    n1 = len(made)
    L.append("feat_con_idt_sum")
    idnt.rate_quality(names=L)
    n2 = len(made)
    witness("second-call")
    prove("edit-noticed:new-rater-built-for-the-edited-list", n2 == n1 + 1,
          info={"raters built by the second call": n2 - n1})
    prove("edit-noticed:rating-parameters-report-the-edited-list",
          idnt.get_rating_parameters()["Feature names"] == ["feat_con_apr_sum", "feat_bin_size", "feat_con_idt_sum"])
    L.clear()
    prove("cache-not-aliased-to-the-caller-list",
          idnt.get_rating_parameters()["Feature names"] == ["feat_con_apr_sum", "feat_bin_size", "feat_con_idt_sum"])
    return {}


class _FunctionalOptimiser:
    """Deterministic optimiser stub: structurally equal arguments give the
    same result term (needed to compare two runs)."""

    def __init__(self):
        self.memo = {}

    def __call__(self, rec, name, p):
        key = (name, repr([s[:7] for s in rec["params_state"]]), repr(rec["args"]))
        if key not in self.memo:
            v = core.fresh_real(f"fopt_{name}")
            if not core.is_inf(p.min):
                core.assume(v >= p.min)
            if not core.is_inf(p.max):
                core.assume(v <= p.max)
            self.memo[key] = v
        return self.memo[key]


def t_alias_preproc(what):
    global LAST_WORLD
    w, idnt, x, y, seg, P, init = fc.setup("4+2", "hertz_cone", ["E"])
    LAST_WORLD = w
    runs = common.install_abstract_steps(w)
    idnt2 = _twin(w, x, y, seg)
    check_assumptions()
    symlmfit.MINIMIZE_POLICY[0] = _FunctionalOptimiser()
    steps = ["correct_tip_offset", "correct_force_slope"]
    opts = {"correct_force_slope": {"region": "baseline", "strategy": "shift"}}
    # tip position is innate here, so correct_tip_offset's prerequisite
    # compute_tip_position must be listed
    steps = ["compute_tip_position"] + steps
    if what in ("unused-entry", "fit-unused-entry"):
        # the caller's dictionary has an entry for a step that the first request does not use
        steps = ["compute_tip_position", "correct_tip_offset"]
        opts = {"correct_force_slope": {"region": "all", "strategy": "drift"}}
    kw = dict(model_key="hertz_cone", params_initial=P, range_x=[0, 0], range_type="absolute",
              segment=0, weight_cp=0, gcf_k=1)

    def call(obj, st, op):
        if what in ("fit-options", "fit-unused-entry"):
            obj.fit_model(preprocessing=st, preprocessing_options=op, **dict(kw, params_initial=copy.deepcopy(P)))
        else:
            obj.apply_preprocessing(st, options=op)
    st0, op0 = copy.deepcopy(steps), copy.deepcopy(opts)
    call(idnt, steps, opts)
    r1 = len(runs)
    prove("arguments-unchanged-by-the-call", steps == st0 and opts == op0,
          info={"steps": repr(steps), "options": repr(opts)})
    if what in ("options", "fit-options"):
        opts["correct_force_slope"]["strategy"] = "drift"
    elif what in ("unused-entry", "fit-unused-entry"):
        steps.append("correct_force_slope")     # now the entry is used
    else:
        steps.append("correct_force_offset")
    # the caller's edit alone (no call yet) must not reach into the curve
    fpd = idnt.fit_properties
    prove("remembered-request-not-aliased-to-caller-objects",
          idnt.preprocessing == st0 and idnt.preprocessing_options == op0
          and list(fpd.get("preprocessing", st0)) == st0 and fpd.get("preprocessing_options", op0) == op0,
          info={"remembered": repr((idnt.preprocessing, idnt.preprocessing_options))[:200]})
    call(idnt, steps, opts)
    r2 = len(runs)
    witness("second-call")
    call(idnt2, st0, op0)
    q1 = len(runs)
    call(idnt2, copy.deepcopy(steps), copy.deepcopy(opts))
    q2 = len(runs)
    core.count("transitions", 4)
    prove("edit-noticed:same-pipeline-runs-as-fresh-copy", (r2 - r1) == (q2 - q1),
          info={"step_runs_same_object": r2 - r1, "step_runs_fresh_copy": q2 - q1})
    prove("edit-noticed:visible-state-equals-fresh-copy", _visible_eq(_visible(idnt), _visible(idnt2)))
    prove("reported-preprocessing-is-the-new-request",
          idnt.preprocessing == steps and idnt.preprocessing_options == opts)
    if what in ("unused-entry", "fit-unused-entry"):
        prove("arguments-unchanged-by-the-call", opts == op0, info={"options": repr(opts)})
    return {"what": what, "step_runs_same_object": r2 - r1, "step_runs_fresh_copy": q2 - q1}


def classify(task, ob):
    return f"{task['name']}:{ob['name'].split('[')[0]}"


REPLAY_COMMON = '''
import lmfit, nanite, copy
from nanite import model as nmodel
import nanite.fit as nfit
seg = np.array([0, 0, 0, 0, 1, 1], dtype=np.uint8)
def mk(x, y):
    return nanite.Indentation(data={"tip position": np.array(x), "force": np.array(y), "segment": seg,
                                    "height (measured)": np.array(x), "time": np.arange(6.)},
                              metadata={"path": "/sym/c.jpk-force", "enum": 0, "point count": 6,
                                        "imaging mode": "force-distance", "spring constant": 0.1})
runs = [0]
_min = lmfit.minimize
def counting(*a, **k):
    runs[0] += 1
    return _min(*a, **k)
nfit.lmfit.minimize = counting
def state(P):
    return {nm: p.__getstate__()[:7] for nm, p in P.items()}
'''


def replay(task, ob, model):
    fn = task["fn"]
    g = lambda nm, d=0.0: float(model.get(nm, d))
    x = [g(f"x{i}") for i in range(6)]
    y = [g(f"y{i}") for i in range(6)]
    # replays use a clean synthetic curve where the model values are degenerate
    xs = [3e-6, 2e-6, 1e-6, -1e-6, 0.0, 2e-6]
    ys = [0.0, 0.0, 1e-10, 4e-9, 1e-9, 0.0]
    if fn == "t_alias_names":
        return common.REPLAY_HEAD + REPLAY_COMMON + '''
import nanite.indent as nind
x = np.linspace(2e-6, -1e-6, 700); f = np.concatenate([np.zeros(400) + 1e-12 * np.cos(np.arange(400)), np.linspace(0, 1, 300) ** 1.5 * 5e-9])
idnt = nanite.Indentation(data={"height (measured)": x.copy(), "force": f.copy(), "time": np.arange(700.) / 700, "segment": np.zeros(700, dtype=np.uint8)},
                          metadata={"path": "/sym/c.jpk-force", "enum": 0, "point count": 700, "imaging mode": "force-distance", "spring constant": 0.1})
idnt.apply_preprocessing(["compute_tip_position", "correct_force_offset", "correct_tip_offset"]); idnt.fit_model(model_key="hertz_para")
made = []
_get = nind.get_rater
def counting(**kw):
    made.append(list(kw.get("names") or [])); return _get(**kw)
nind.get_rater = counting
L = ["feat_con_apr_sum", "feat_bin_size"]
r1 = idnt.rate_quality(names=L); n1 = len(made)
L.append("feat_con_idt_sum")
r2 = idnt.rate_quality(names=L); n2 = len(made)
print("raters built by the second call:", n2 - n1, "reported names:", idnt.get_rating_parameters()["Feature names"])
if n2 != n1 + 1:
    print("REPRODUCED: in-place edit of the names list is not noticed by rate_quality"); sys.exit(1)
L.clear()
if idnt.get_rating_parameters()["Feature names"] != ["feat_con_apr_sum", "feat_bin_size", "feat_con_idt_sum"]:
    print("REPRODUCED: rating cache aliases the caller's list"); sys.exit(1)
sys.exit(0)
'''
    if fn == "t_alias_available":
        k = int(float(model.get("removed_index", 0)))
        return common.REPLAY_HEAD + f'''
import nanite.preproc as pp
first = list(pp.available()); k = {k}
L = pp.available(); removed = L[k]; del L[k]; L.append("my_own_step")
second = list(pp.available())
print("removed", removed, "available afterwards", second)
if second != first:
    print("REPRODUCED: editing the list returned by preproc.available() changed the library state"); sys.exit(1)
sys.exit(0)
'''
    if fn == "t_alias_params":
        how = task["args"]["how"]
        edit = task["args"].get("edit", "value")
        via = task["args"].get("via", "kwarg")
        return common.REPLAY_HEAD + REPLAY_COMMON + f'''
how = {how!r}; via = {via!r}
kw = dict(model_key="hertz_cone", range_x=[0, 0], range_type="absolute", segment=0, weight_cp=0, gcf_k=1)
def fit(curve, params):
    if via == "setitem":
        curve.fit_properties["model_key"] = "hertz_cone"; curve.fit_properties["params_initial"] = params
        curve.fit_model(**kw)
    else:
        curve.fit_model(params_initial=params, **kw)
def P0():
    P = nmodel.models_available["hertz_cone"].get_parameter_defaults()
    P["contact_point"].vary = False; P["baseline"].vary = False
    return P
a = mk({xs!r}, {ys!r}); b = mk({xs!r}, {ys!r})
P = P0()
if how == "returned":
    a.fit_properties["model_key"] = "hertz_cone"; a.fit_properties["params_initial"] = P
    P1 = a.get_initial_fit_parameters()
else:
    P1 = P
fit(a, P1); n1 = runs[0]
edit = {edit!r}
if edit == "value": P1["E"].value = 7777.0
elif edit == "vary": P1["baseline"].vary = True
else: P1["E"].set(max=9000.0)
fit(a, P1); n2 = runs[0]
fit(b, P0()); m1 = runs[0]
fit(b, copy.deepcopy(P1)); m2 = runs[0]
print("optimiser runs after in-place edit:", n2 - n1, " with fresh copy:", m2 - m1)
ea = a.fit_properties["params_fitted"]["E"].value; eb = b.fit_properties["params_fitted"]["E"].value
print("fitted E:", ea, eb)
if (n2 - n1) != (m2 - m1) or state(a.fit_properties["params_initial"]) != state(b.fit_properties["params_initial"]):
    print("REPRODUCED: in-place edit of a previously passed/returned params object is not noticed"); sys.exit(1)
if (n2 - n1) != 1 or state(a.fit_properties["params_initial"]) != state(P1):
    print("REPRODUCED: edited initial parameters (%s) were not taken over / not refitted: runs=%d" % (edit, n2 - n1)); sys.exit(1)
sys.exit(0)
'''
    if fn == "t_alias_preproc":
        what = task["args"]["what"]
        return common.REPLAY_HEAD + REPLAY_COMMON + f'''
import nanite.preproc as npp
what = {what!r}
steps = ["compute_tip_position", "correct_tip_offset", "correct_force_slope"]
opts = {{"correct_force_slope": {{"region": "baseline", "strategy": "shift"}}}}
xs = np.linspace(3e-6, -1e-6, 6); ys = np.array([0., 1e-11, 0., 2e-10, 3e-9, 9e-9])
seg = np.array([0, 0, 0, 0, 0, 0], dtype=np.uint8)
a = mk(list(xs), list(ys)); b = mk(list(xs), list(ys))
napply = [0]
_apply = npp.apply
def capply(*aa, **kk):
    napply[0] += 1
    return _apply(*aa, **kk)
npp.apply = capply
import nanite.indent as nind
nind.preproc.apply = capply
def P0():
    P = nmodel.models_available["hertz_cone"].get_parameter_defaults()
    P["contact_point"].vary = False; P["baseline"].vary = False
    return P
kw = dict(model_key="hertz_cone", range_x=[0, 0], range_type="absolute", segment=0, weight_cp=0, gcf_k=1)
if what in ("unused-entry", "fit-unused-entry"):
    steps = ["compute_tip_position", "correct_tip_offset"]
    opts = {{"correct_force_slope": {{"region": "all", "strategy": "drift"}}}}
def call(o, st, op):
    if what in ("fit-options", "fit-unused-entry"):
        o.fit_model(preprocessing=st, preprocessing_options=op, params_initial=P0(), **kw)
    else:
        o.apply_preprocessing(st, options=op)
st0, op0 = copy.deepcopy(steps), copy.deepcopy(opts)
call(a, steps, opts); r1 = napply[0]
if steps != st0 or opts != op0:
    print("REPRODUCED: the call changed the caller's arguments:", steps, opts); sys.exit(1)
if what in ("options", "fit-options"):
    opts["correct_force_slope"]["strategy"] = "drift"
elif what in ("unused-entry", "fit-unused-entry"):
    steps.append("correct_force_slope")
else:
    steps.append("correct_force_offset")
if a.preprocessing != st0 or a.preprocessing_options != op0 or a.fit_properties.get("preprocessing_options", op0) != op0:
    print("REPRODUCED: the caller's later in-place edit changed what the curve remembers:", a.preprocessing, a.preprocessing_options); sys.exit(1)
call(a, steps, opts); r2 = napply[0]
call(b, st0, op0); q1 = napply[0]
call(b, copy.deepcopy(steps), copy.deepcopy(opts)); q2 = napply[0]
print("pipeline runs after in-place edit:", r2 - r1, " with fresh copy:", q2 - q1)
same_cols = all(np.array_equal(a[c], b[c], equal_nan=True) for c in ("force", "tip position"))
if (r2 - r1) != (q2 - q1) or not same_cols:
    print("REPRODUCED: in-place edit of previously passed steps/options is not noticed"); sys.exit(1)
sys.exit(0)
'''
    if fn == "t_mut_fit":
        mode = task["args"]["mode"]
        k = g("k", 0.5)
        if k == 1.0:
            k = 0.5
        return common.REPLAY_HEAD + REPLAY_COMMON + f'''
a = mk({xs!r}, {ys!r})
P = nmodel.models_available["hertz_cone"].get_parameter_defaults()
P["contact_point"].value = {g("init_contact_point", -1e-7)!r} or -1e-7
P["baseline"].vary = False
s0 = state(P)
rng = [{g("ra")!r}, {g("rb")!r}]; mk_ = {{}}; st = ["correct_force_offset"]; op = {{"correct_force_offset": {{}}}}
pre = copy.deepcopy((rng, mk_, st, op))
try:
    a.fit_model(model_key="hertz_cone", params_initial=P, range_x=rng, range_type={mode!r}, segment=0,
                weight_cp=1e-7, gcf_k={k!r}, method_kws=mk_, preprocessing=st, preprocessing_options=op)
except KeyError as e:
    print("KeyError", e)
print(s0["contact_point"], "->", state(P)["contact_point"])
if state(P) != s0 or (rng, mk_, st, op) != pre:
    print("REPRODUCED: fit_model modified an argument object"); sys.exit(1)
sys.exit(0)
'''
    if fn == "t_mut_poc":
        n = task["args"]["n"]
        f = [g(f"f{i}") for i in range(n)]
        return common.REPLAY_HEAD + f'''
import nanite.poc as poc
f = np.array({f!r}); f0 = f.copy()
try:
    poc.compute_poc(f, method={task["args"]["method"]!r})
except ValueError as e:
    print("ValueError", e)
if not np.array_equal(f, f0):
    print("REPRODUCED: compute_poc modified the force array"); sys.exit(1)
sys.exit(0)
'''
    key = task["args"]["model_key"]
    p = {name: g(name) for name in specs.PARAMS[key]}
    return common.REPLAY_HEAD + f'''
from nanite.model import models_available
from nanite.model import residuals
md = models_available[{key!r}]
P = md.get_parameter_defaults()
for nm, v in {p!r}.items():
    P[nm].value = v
x = np.array({[g(f"x{i}") for i in range(3)]!r}); y = np.array({[g(f"y{i}") for i in range(3)]!r})
x0, y0 = x.copy(), y.copy(); s0 = [p.__getstate__()[:7] for p in P.values()]
md.residual(P, x, y, {g("weight_cp", 1e-7)!r}); md.model(P, x)
residuals.compute_contact_point_weights(P["contact_point"].value, x, {g("weight_cp", 1e-7)!r})
if not (np.array_equal(x, x0) and np.array_equal(y, y0)) or s0 != [p.__getstate__()[:7] for p in P.values()]:
    print("REPRODUCED: model/residual modified its inputs"); sys.exit(1)
sys.exit(0)
'''
