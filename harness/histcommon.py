"""Shared machinery for the history-quantified checks (C03, C06): a real
Indentation over symbolic raw columns, abstract preprocessing steps, the
functional optimiser stub and an operation alphabet."""
import copy
from fractions import Fraction as Fr

from symx import core, symnp, symlmfit
from symx.core import real, assume, same, all_of

from harness import common, fitcommon as fc
from harness.c10 import _FunctionalOptimiser, _pstate, _pstate_eq, _snap, _snap_eq

N = 4
SEG = [0, 0, 0, 0]

PIPELINES = {
    "A": (["compute_tip_position", "correct_force_offset"], {}),
    "B": (["compute_tip_position", "correct_tip_offset", "correct_force_slope"],
          {"correct_force_slope": {"region": "baseline", "strategy": "shift"}}),
    "B2": (["compute_tip_position", "correct_tip_offset", "correct_force_slope"],
           {"correct_force_slope": {"region": "all", "strategy": "drift"}}),
    "B0": (["compute_tip_position", "correct_tip_offset", "correct_force_slope"], {}),
    "T": (["compute_tip_position", "correct_tip_offset"], {}),
    "E": ([], {}),
    # rejected requests
    "X_missing_prerequisite": (["correct_tip_offset"], {}),
    "X_unknown_step": (["compute_tip_position", "no_such_step"], {}),
    # the same steps as the valid pipeline T, in an order that violates a requirement
    "X_wrong_order": (["correct_tip_offset", "compute_tip_position"], {}),
    "X_invalid_option": (["compute_tip_position", "correct_tip_offset", "correct_force_slope"],
                         {"correct_force_slope": {"region": "baseline", "strategy": "bogus"}}),
    # an option name the step does not have (rejected with a TypeError by the call itself)
    "X_unknown_option": (["compute_tip_position", "correct_tip_offset", "correct_force_slope"],
                         {"correct_force_slope": {"region": "baseline", "no_such_option": 1}}),
}
VALID = ["A", "B", "B2", "B0", "T", "E"]
INVALID = ["X_missing_prerequisite", "X_unknown_step", "X_invalid_option", "X_wrong_order", "X_unknown_option"]


class Sys:
    """One world, symbolic raw data shared by every curve made from it."""

    def __init__(self):
        self.w = common.indent_world()
        fitmod = self.w.modules["nanite.fit"]
        fitmod.obj2bytes = _structural_token
        import types as _types
        fitmod.hashlib = _types.SimpleNamespace(md5=Token)
        symlmfit.reset_stub()
        symlmfit.MINIMIZE_POLICY[0] = SemanticOptimiser()
        self.step_runs = common.install_abstract_steps(self.w)
        self.h = [real(f"h{i}") for i in range(N)]
        self.f = [real(f"f{i}") for i in range(N)]
        self.t = [real(f"t{i}") for i in range(N)]
        self.raw_ids = None

    def curve(self):
        cols = {"height (measured)": symnp.SymArr(list(self.h)), "force": symnp.SymArr(list(self.f)),
                "time": symnp.SymArr(list(self.t)), "segment": symnp.SymArr(SEG, dtype=symnp.uint8)}
        return common.make_indentation(self.w, cols, spring_constant=Fr(1, 10))

    def params(self, model_key="hertz_cone"):
        md = self.w.modules["nanite.model"].models_available[model_key]
        P = md.get_parameter_defaults()
        for nm, p in P.items():
            p.vary = nm == "E"
        return P


class Token:
    """Stand-in for the md5 digest: the structured settings/data content
    itself (the byte encoding is C12's subject).  Two tokens are equal iff
    they have the same shape and semantically equal leaves."""

    def __init__(self, tree):
        self.tree = tree

    def hexdigest(self):
        return self

    def eq_formula(self, other):
        return _tree_eq(self.tree, other.tree)

    def __eq__(self, other):
        if not isinstance(other, Token):
            return False
        return core.decide(self.eq_formula(other))

    def __ne__(self, other):
        return not self.__eq__(other)

    __hash__ = object.__hash__

    def __repr__(self):
        return "Token(%r)" % (self.tree,)


def _structural_token(obj):
    return _tok(obj)


def _tok(obj):
    if isinstance(obj, symnp.SymArr):
        return ("arr", tuple(obj.elems))
    if isinstance(obj, symlmfit.Parameter):
        return ("par", tuple(obj.__getstate__()[:7]))
    if isinstance(obj, dict):
        return ("dict", tuple(sorted(((str(k), _tok(v)) for k, v in obj.items()), key=lambda kv: kv[0])))
    if isinstance(obj, (list, tuple)):
        return ("seq", tuple(_tok(x) for x in obj))
    if isinstance(obj, bool):
        return ("num", int(obj))
    if isinstance(obj, (int, float, Fr)) or core.is_sym(obj):
        return ("num", obj)
    return ("leaf", obj)


def _tree_eq(a, b):
    if isinstance(a, tuple) and isinstance(b, tuple):
        if len(a) != len(b):
            return False
        return all_of([_tree_eq(x, y) for x, y in zip(a, b)])
    if isinstance(a, tuple) or isinstance(b, tuple):
        return False
    if isinstance(a, (str, type(None))) or isinstance(b, (str, type(None))):
        return a == b
    if core.is_sym(a) or core.is_sym(b) or isinstance(a, (int, float, Fr)):
        if core.is_nan(a) or core.is_nan(b):
            return core.is_nan(a) and core.is_nan(b)
        return same(a, b)
    return a == b


def raw_snapshot(idnt):
    return {c: list(idnt._raw_data[c].elems) for c in idnt._raw_data}


def raw_unchanged(idnt, snap):
    return all(len(snap[c]) == len(idnt._raw_data[c].elems)
               and all(u is v for u, v in zip(snap[c], idnt._raw_data[c].elems)) for c in snap) \
        and set(snap) == set(idnt._raw_data)


FIT_COLUMNS = ("fit", "fit residuals", "fit range")


def columns(idnt, with_fit=False):
    """Data columns (the fit result columns are the subject of C03/C04)."""
    return {c: list(idnt[c].elems) for c in idnt.columns if with_fit or c not in FIT_COLUMNS}


def columns_equal(a, b):
    if set(a) != set(b):
        return False
    conds = []
    for c in a:
        if len(a[c]) != len(b[c]):
            return False
        conds += [same(u, v) for u, v in zip(a[c], b[c])]
    return all_of(conds)


def request(sys_, idnt, name, via="apply"):
    """Issue one preprocessing request; returns None or the exception."""
    steps, opts = PIPELINES[name]
    steps, opts = copy.deepcopy(steps), copy.deepcopy(opts)
    try:
        if via == "apply":
            idnt.apply_preprocessing(steps, options=opts)
        else:
            idnt.fit_model(preprocessing=steps, preprocessing_options=opts,
                           model_key="hertz_cone", params_initial=sys_.params(),
                           range_x=[0, 0], segment=0, weight_cp=0, gcf_k=1)
    except (ValueError, KeyError, TypeError) as e:
        return e
    finally:
        core.count("transitions")
    return None


def reported(idnt):
    """What the curve reports about its preprocessing."""
    fp = idnt.fit_properties
    return (list(idnt.preprocessing), copy.deepcopy(idnt.preprocessing_options),
            copy.deepcopy(fp.get("preprocessing")), copy.deepcopy(fp.get("preprocessing_options")))



class SemanticOptimiser:
    """Functional optimiser stub whose result is an *uninterpreted function*
    of the semantic content of its arguments: the sequence of (x, y) points
    actually selected (folded with an uninterpreted cons, so a positional
    selection and the equal dense array give equal terms under the path
    condition), every parameter value, the weighting distance, the method and
    the residual function.  Equal arguments => equal results by congruence;
    different arguments => unconstrained."""

    def __call__(self, rec, name, p):
        x, y, wcp = rec["args"][:3]
        X, Y = symnp.asarray(x), symnp.asarray(y)
        h = Fr(0)
        for ex, ey, pr in zip(X.elems, Y.elems, X._present_list()):
            hx = core.sym_uf("cons", [h, ex, ey])
            if pr is True:
                h = hx
            elif pr is not False:
                h = core.sym_ite(pr, hx, h)
        states = rec["params_state"]
        args = [h] + [st[1] for st in states] + [wcp if not isinstance(wcp, bool) else int(wcp)]
        flags = "".join("v" if st[2] else "f" for st in states)
        fname = "opt_%s_%s_%s_%s" % (name, rec["method"], flags, id(rec["fcn"]))
        v = core.sym_uf(fname, args)
        if not core.is_inf(p.min):
            core.assume(v >= p.min)
        if not core.is_inf(p.max):
            core.assume(v <= p.max)
        return v
