"""C13 - every registered model obeys the structural model contract."""
import types
from fractions import Fraction as Fr

from symx import core, symnp, symlmfit
from symx.core import (real, assume, prove, witness, implies, check_assumptions,
                       sym_ite, same, is_nan, all_of, any_of)

import specs
from harness import common

ID = "C13"
LEVEL = "other"
LAST_WORLD = None
EXPLANATION = (
    "Bounded symbolic verification. User-supplied models are quantified over by "
    "registering, through the real NaniteFitModel/register_model, a synthetic "
    "module whose model_func is an *uninterpreted* position-sensitive function "
    "(one function symbol per output slot): z3 shows the default wrappers return "
    "f(delta) for descending and rev(f(rev(delta))) for ascending abscissae, only "
    "ever call f with approach-ordered data, leave inputs unmodified and that the "
    "default residual is (force-model)*weights, for every abscissa array of "
    "length N<=4 of either orientation. For each shipped model (real model_func, "
    "NRA) it shows translation covariance, baseline additivity, linear scaling in "
    "the moduli, the continuity bound 0<=F-baseline<=A*(cp-delta) on (0,R], "
    "monotonicity in depth on (0,R] and zero residual on self-generated data.")
ASSUMPTIONS = [
    "user model = uninterpreted function of (all abscissa slots, parameters); models with side effects are outside",
    "real arithmetic; parameters inside lmfit bounds, R>0, t>0, E_S>0; depth range (0,R] (cone/pyramid: (0,1])",
    "monotonicity of the Clifford layer model is not decided (cube-root/sqrt composition exceeded the per-query cap) and is not claimed",
    "sqrt/cbrt/tan auxiliaries as in C02",
]
BUDGET_S = {"quick": 900, "thorough": 3000}
QUERY_TIMEOUT_MS = {"quick": 60000, "thorough": 240000}


def bounds(tier):
    return {"wrappers": "N in {1,2,3,4} (thorough: up to 6), user module with and without own model/residual",
            "shipped models": list(specs.PARAMS), "points per relational obligation": 2,
            "outside": "depth beyond the tip radius; doubles; Clifford monotonicity"}


def tasks(tier):
    ts = []
    for n in ((1, 2, 3, 4) if tier == "quick" else (1, 2, 3, 4, 5, 6)):
        for own in (False, True, "residual", "model"):
            label = {False: "default", True: "own", "residual": "own-residual-only", "model": "own-model-only"}[own]
            ts.append({"name": f"wrapper:N{n}:{label}", "fn": "t_wrapper",
                       "args": {"n": n, "own": own},
                       "witnesses": ["ascending", "descending"] if n > 1 and own is not True else []})
    for key in specs.PARAMS:
        for prop in ("translation", "baseline", "scaling", "continuity", "zero-residual"):
            ts.append({"name": f"{prop}:{key}", "fn": "t_shipped", "args": {"key": key, "prop": prop},
                       "witnesses": ["reached"]})
        if key != "power_layer_clifford_2009":
            ts.append({"name": f"monotone:{key}", "fn": "t_shipped", "args": {"key": key, "prop": "monotone"},
                       "witnesses": ["reached"]})
    return ts


def t_wrapper(n, own):
    global LAST_WORLD
    w = common.model_world()
    LAST_WORLD = w
    nm = w.modules["nanite.model"]
    core_mod = w.modules["nanite.model.core"]
    calls = []

    def user_model_func(delta, E, contact_point=0, baseline=0):
        d = symnp.asarray(delta)
        es = list(d.elems)
        calls.append(es)
        return symnp.SymArr([core.sym_uf(f"user{i}", es + [E, contact_point, baseline])
                             for i in range(len(es))])

    def get_parameter_defaults():
        P = symlmfit.Parameters()
        P.add("E", value=3000, min=0)
        P.add("contact_point", value=0)
        P.add("baseline", value=0)
        return P
    mod = types.ModuleType("user_model")
    mod.get_parameter_defaults = get_parameter_defaults
    mod.model_doc = "user model"
    mod.model_func = user_model_func
    mod.model_key = "user_model"
    mod.model_name = "user model"
    mod.parameter_keys = ["E", "contact_point", "baseline"]
    mod.parameter_names = ["Young's Modulus", "Contact Point", "Force Baseline"]
    mod.parameter_units = ["Pa", "m", "N"]
    mod.valid_axes_x = ["tip position"]
    mod.valid_axes_y = ["force"]
    own_model = lambda params, delta: "own-model"
    own_resid = lambda params, delta, force, weight_cp=0: "own-residual"
    if own is True or own == "model":
        mod.model = own_model
    if own is True or own == "residual":
        mod.residual = own_resid
    before = set(nm.models_available)
    md = nm.register_model(mod)
    prove("registered-under-key", set(nm.models_available) == before | {"user_model"}
          and nm.models_available["user_model"] is md)
    if own is True or own == "model":
        prove("own-model-kept", md.model is own_model and mod.model is own_model)
    if own is True or own == "residual":
        prove("own-residual-kept", md.residual is own_resid)
    if own is True:
        nm.deregister_model(md)
        prove("deregistered", set(nm.models_available) == before)
        return {"own": True}
    E, cp, bl = real("E"), real("cp"), real("bl")
    assume(E >= 0)
    xs = [real(f"d{i}") for i in range(n)]
    ys = [real(f"y{i}") for i in range(n)]
    wcp = real("weight_cp")
    assume(wcp > 0)
    check_assumptions()
    P = md.get_parameter_defaults()
    P["E"].value, P["contact_point"].value, P["baseline"].value = E, cp, bl
    delta = symnp.SymArr(list(xs))
    force = symnp.SymArr(list(ys))
    asc = (xs[0] < xs[-1]) if n > 1 else False
    if own == "model":
        # generated residual around the module's own model function is not
        # defined by the property (it wraps model_func, not `model`)
        is_asc = core.decide(asc)
        witness("ascending" if is_asc else "descending")
        r = md.residual(P, delta, force, wcp)
        prove("user-function-sees-approach-order", len(calls) == 1 and calls[0][0] >= calls[0][-1])
        nm.deregister_model(md)
        prove("deregistered", set(nm.models_available) == before)
        return {"own": own}
    out = md.model(P, delta)
    is_asc = core.decide(asc)
    witness("ascending" if is_asc else "descending")
    prove("user-function-called-once", len(calls) == 1)
    seen = calls[0]
    prove("user-function-sees-approach-order", seen[0] >= seen[-1])
    fwd = [core.sym_uf(f"user{i}", list(xs) + [E, cp, bl]) for i in range(n)]
    rxs = list(reversed(xs))
    rev = list(reversed([core.sym_uf(f"user{i}", rxs + [E, cp, bl]) for i in range(n)]))
    want = rev if is_asc else fwd
    prove("output-length", len(out._idx) == n)
    for i in range(n):
        prove(f"output-order[{i}]", same(out.elems[i], want[i]))
    prove("abscissa-unmodified", all(u is v for u, v in zip(xs, delta.elems)))
    calls.clear()
    if own == "residual":
        nm.deregister_model(md)
        prove("deregistered", set(nm.models_available) == before)
        return {"own": own, "ascending": is_asc}
    r = md.residual(P, delta, force, wcp)
    for i in range(n):
        wgt = core.sym_div(core.sym_abs(xs[i] - cp), wcp)
        wgt = sym_ite(wgt > 1, 1, wgt)
        prove(f"default-residual[{i}]", same(r.elems[i], (ys[i] - want[i]) * wgt))
    r0 = md.residual(P, delta, force, 0)
    for i in range(n):
        prove(f"default-residual-unweighted[{i}]", same(r0.elems[i], ys[i] - want[i]))
    prove("inputs-unmodified", all(u is v for u, v in zip(xs, delta.elems))
          and all(u is v for u, v in zip(ys, force.elems)))
    nm.deregister_model(md)
    prove("deregistered", set(nm.models_available) == before)
    return {"n": n, "ascending": is_asc}


def _call(mod, key, delta_vals, p):
    out = mod.model_func(symnp.SymArr(list(delta_vals)), **p)
    return out.elems


def t_shipped(key, prop):
    global LAST_WORLD
    w = common.model_world()
    LAST_WORLD = w
    mod = w.modules["nanite.model." + specs.MODEL_FILES[key]]
    md = w.modules["nanite.model"].models_available[key]
    p = common.sym_params(key)
    cp, bl = p["contact_point"], p["baseline"]
    d1, d2 = real("delta0"), real("delta1")
    lim = p["R"] if "R" in p else 1
    if prop == "translation":
        s = real("shift")
        check_assumptions()
        a = _call(mod, key, [d1, d2], p)
        q = dict(p, contact_point=cp + s)
        b = _call(mod, key, [d1 + s, d2 + s], q)
        for i in range(2):
            prove(f"translation[{i}]", same(a[i], b[i]))
    elif prop == "baseline":
        c = real("offset")
        check_assumptions()
        a = _call(mod, key, [d1, d2], p)
        b = _call(mod, key, [d1, d2], dict(p, baseline=bl + c))
        for i in range(2):
            prove(f"baseline[{i}]", same(a[i] + c, b[i]))
    elif prop == "scaling":
        lam = real("lam")
        assume(lam > 0)
        check_assumptions()
        a = _call(mod, key, [d1, d2], p)
        q = dict(p)
        for nm in ("E", "E_S", "E_L"):
            if nm in q:
                q[nm] = p[nm] * lam
        if key == "power_layer_clifford_2009":
            # keep the scaled moduli inside the model's bounds
            assume(q["E_L"] <= 1000)
        b = _call(mod, key, [d1, d2], q)
        for i in range(2):
            prove(f"scaling[{i}]", same((a[i] - bl) * lam, b[i] - bl))
    elif prop == "continuity":
        assume(cp - d1 > 0)
        assume(cp - d1 <= lim)
        check_assumptions()
        a = _call(mod, key, [d1], p)
        d = cp - d1
        if key in ("hertz_para", "sneddon_spher_approx"):
            A = Fr(4, 3) * p["E"] / (1 - p["nu"] * p["nu"]) * p["R"]
        elif key == "hertz_cone":
            A = 2 * common.SymOps.tan(p["alpha"] * common.SymOps.pi / 180) / common.SymOps.pi \
                * p["E"] / (1 - p["nu"] * p["nu"])
            assume(common.SymOps.tan(p["alpha"] * common.SymOps.pi / 180) >= 0)
        elif key == "hertz_pyr3s":
            A = specs.PYR * common.SymOps.tan(p["alpha"] * common.SymOps.pi / 180) \
                * p["E"] / (1 - p["nu"] * p["nu"])
            assume(common.SymOps.tan(p["alpha"] * common.SymOps.pi / 180) >= 0)
        else:
            emax = sym_ite(p["E_S"] >= p["E_L"], p["E_S"], p["E_L"])
            A = Fr(4, 3) * emax * p["R"]
        prove("continuity:nonnegative", a[0] - bl >= 0)
        prove("continuity:linear-bound", a[0] - bl <= A * d)
        # and exactly the baseline at and beyond the contact point
        b = _call(mod, key, [cp, cp + real("beyond") * real("beyond")], p)
        prove("continuity:baseline-at-contact", all_of([same(b[0], bl), same(b[1], bl)]))
    elif prop == "monotone":
        assume(cp - d1 > 0)
        assume(cp - d2 >= cp - d1)
        assume(cp - d2 <= lim)
        if "alpha" in p:
            assume(common.SymOps.tan(p["alpha"] * common.SymOps.pi / 180) >= 0)
        check_assumptions()
        a = _call(mod, key, [d1, d2], p)
        prove("monotone-in-depth", a[1] >= a[0])
    elif prop == "zero-residual":
        wcp = real("weight_cp")
        assume(wcp > 0)
        check_assumptions()
        P = md.get_parameter_defaults()
        for nm in p:
            P[nm].value = p[nm]
        delta = symnp.SymArr([d1, d2])
        data = md.model(P, delta)
        r = md.residual(P, symnp.SymArr([d1, d2]), symnp.SymArr(list(data.elems)), wcp)
        for i in range(2):
            prove(f"zero-residual[{i}]", same(r.elems[i], 0))
    witness("reached")
    return {"model": key, "prop": prop}


def classify(task, ob):
    return f"{task['name']}:{ob['name'].split('[')[0]}"


def replay(task, ob, model):
    g = lambda nm, d=0.0: float(model.get(nm, d))
    if task["fn"] == "t_wrapper":
        n = task["args"]["n"]
        xs = [g(f"d{i}") for i in range(n)]
        if n > 1 and len(set(xs)) == 1:
            xs = [float(i) for i in range(n)]
        return common.REPLAY_HEAD + f'''
import types, lmfit
import nanite.model as nm
seen = []
cp = {g("cp", 0.0)!r}
def user_model_func(delta, E, contact_point=0, baseline=0):
    seen.append(np.array(delta, copy=True))
    # position-sensitive: slot i gets a different function of the whole input
    return np.array([(i + 1) * 1000.0 + 7.0 * delta[0] - 3.0 * delta[-1] + delta[i] for i in range(len(delta))])
def gpd():
    P = lmfit.Parameters(); P.add("E", value=3000, min=0); P.add("contact_point", value=cp); P.add("baseline", value=0)
    return P
mod = types.ModuleType("user_model")
mod.get_parameter_defaults = gpd; mod.model_doc = "d"; mod.model_func = user_model_func
mod.model_key = "user_model"; mod.model_name = "user model"
mod.parameter_keys = ["E", "contact_point", "baseline"]
mod.parameter_names = ["Young's Modulus", "Contact Point", "Force Baseline"]
mod.parameter_units = ["Pa", "m", "N"]; mod.valid_axes_x = ["tip position"]; mod.valid_axes_y = ["force"]
own = {task["args"]["own"]!r}
own_model = lambda params, delta: "own-model"
own_resid = lambda params, delta, force, weight_cp=0: "own-residual"
if own is True or own == "model": mod.model = own_model
if own is True or own == "residual": mod.residual = own_resid
before = set(nm.models_available)
md = nm.register_model(mod)
bad = []
if own in (True, "model") and md.model is not own_model: bad.append("own model replaced")
if own in (True, "residual") and md.residual is not own_resid: bad.append("own residual replaced")
for xs in (np.array({xs!r}), np.array({xs!r})[::-1].copy()):
    x0 = xs.copy(); y = np.arange(len(xs)) * 1.0
    seen.clear()
    if own is True: break
    if own == "model":
        md.residual(gpd(), xs, y, 0.5)
        if len(seen) < 1 or seen[0][0] < seen[0][-1]: bad.append("user function saw ascending data")
        continue
    out = md.model(gpd(), xs)
    asc = len(xs) > 1 and xs[0] < xs[-1]
    want = user_model_func(xs[::-1], 3000)[::-1] if asc else user_model_func(xs, 3000)
    if len(seen) < 1 or seen[0][0] < seen[0][-1]:
        bad.append("user function saw ascending data")
    if out.shape != xs.shape or not np.allclose(out, want):
        bad.append("output order/shape")
    if not np.array_equal(xs, x0):
        bad.append("abscissa modified")
    if own == "residual": continue
    r = md.residual(gpd(), xs, y, {g("weight_cp", 0.5)!r})
    wgt = np.minimum(1, np.abs(xs - cp) / {g("weight_cp", 0.5)!r})
    if not np.allclose(r, (y - want) * wgt):
        bad.append("default residual")
nm.deregister_model(md)
if set(nm.models_available) != before:
    bad.append("registry")
print(bad)
if bad:
    print("REPRODUCED"); sys.exit(1)
sys.exit(0)
'''
    key, prop = task["args"]["key"], task["args"]["prop"]
    p = {name: g(name) for name in specs.PARAMS[key]}
    return common.REPLAY_HEAD + f'''
from nanite.model import models_available
md = models_available[{key!r}]
f = md.module.model_func
p = {p!r}; d1, d2 = {g("delta0")!r}, {g("delta1")!r}
prop = {prop!r}
bl, cp = p["baseline"], p["contact_point"]
def close(a, b):
    sc = max(np.max(np.abs(a)), np.max(np.abs(b)), 1e-300)
    return np.allclose(a, b, rtol=1e-9, atol=1e-12 * sc)
bad = False
if prop == "translation":
    s = {g("shift")!r}
    bad = not close(f(np.array([d1, d2]), **p), f(np.array([d1 + s, d2 + s]), **dict(p, contact_point=cp + s)))
elif prop == "baseline":
    c = {g("offset")!r}
    bad = not close(f(np.array([d1, d2]), **p) + c, f(np.array([d1, d2]), **dict(p, baseline=bl + c)))
elif prop == "scaling":
    lam = {g("lam", 2.0)!r}
    q = dict(p)
    for nm in ("E", "E_S", "E_L"):
        if nm in q: q[nm] = p[nm] * lam
    bad = not close((f(np.array([d1, d2]), **p) - bl) * lam, f(np.array([d1, d2]), **q) - bl)
elif prop == "monotone":
    a = f(np.array([d1, d2]), **p)
    bad = not (a[1] >= a[0] - 1e-9 * abs(a[0]))
elif prop == "continuity":
    a = f(np.array([d1, cp, cp + 1.0]), **p)
    bad = not (a[0] - bl >= 0 and a[1] == bl and a[2] == bl)
elif prop == "zero-residual":
    P = md.get_parameter_defaults()
    for nm, v in p.items(): P[nm].value = v
    x = np.array([d1, d2])
    r = md.residual(P, x, md.model(P, x), {g("weight_cp", 1e-7)!r})
    bad = not np.all(r == 0)
print("property", prop, "violated:", bad)
if bad:
    print("REPRODUCED"); sys.exit(1)
sys.exit(0)
'''
