"""C06 - preprocessing is a pure, repeatable function of raw data, steps and options."""
import copy
import itertools

from symx import core, symnp, symlmfit
from symx.core import prove, witness, check_assumptions

from harness import common, histcommon as hc

ID = "C06"
LEVEL = "model_checking"
LAST_WORLD = None
EXPLANATION = (
    "Bounded model checking over request histories with symbolic data: the real "
    "Indentation.apply_preprocessing / fit_model(preprocessing=...) / preproc.apply / "
    "afmformats data classes run on raw columns of N=4 solver variables; the six "
    "steps are abstract but deterministic (own column + uninterpreted marker per "
    "(step, options); invalid option values raise like the real steps). For every "
    "history of k requests over {5 valid pipelines via apply_preprocessing (incl. the same steps with "
    "explicitly empty options), 3 via fit_model, 3 rejected requests via either API} z3 shows: the columns after the "
    "history equal those of a fresh curve given only the last request; re-applying "
    "changes nothing and runs no step; raw data objects are untouched; a request "
    "rejected on the fresh curve is rejected in the history, is rejected again when "
    "repeated, and is never reported by preprocessing / fit_properties afterwards.")
ASSUMPTIONS = [
    "abstract deterministic steps (bit-identity of doubles follows only if the real steps are deterministic functions of their inputs: C07 decides them per step)",
    "lmfit.minimize functional contract stub; obj2bytes structural token; afmformats MetaData plain dict",
    "N=4 samples, one segment; request alphabet of 12 (pipeline, API) pairs",
]
BUDGET_S = {"quick": 900, "thorough": 3300}
QUERY_TIMEOUT_MS = {"quick": 30000, "thorough": 60000}

OPS = [(n, "apply") for n in hc.VALID] + [("A", "fit"), ("B", "fit"), ("B0", "fit")] \
    + [(n, "apply") for n in hc.INVALID] + [(n, "fit") for n in hc.INVALID]


def bounds(tier):
    return {"history length k": 2 if tier == "quick" else 3, "operations": [f"{n}/{v}" for n, v in OPS],
            "N": hc.N, "outside": "longer histories; real step numerics (C07); doubles"}


def tasks(tier):
    k = 2 if tier == "quick" else 3
    ts = []
    for hist in itertools.product(range(len(OPS)), repeat=k):
        ts.append({"name": "hist:" + ">".join(f"{OPS[i][0]}/{OPS[i][1]}" for i in hist),
                   "fn": "t_history", "args": {"hist": list(hist)}, "max_paths": 64})
    return ts


def t_history(hist):
    global LAST_WORLD
    s = hc.Sys()
    LAST_WORLD = s.w
    check_assumptions()
    idnt = s.curve()
    raw0 = hc.raw_snapshot(idnt)
    outcomes = []
    for i in hist:
        name, via = OPS[i]
        outcomes.append(hc.request(s, idnt, name, via))
    name, via = OPS[hist[-1]]
    steps, opts = hc.PIPELINES[name]
    # oracle: fresh curve, last request only
    fresh = s.curve()
    exp = hc.request(s, fresh, name, via)
    got = outcomes[-1]
    prove("same-acceptance-as-fresh-curve", (exp is None) == (got is None),
          info={"fresh": repr(exp), "history": repr(got)})
    prove("raw-data-untouched", hc.raw_unchanged(idnt, raw0))
    if exp is None and got is None:
        witness("accepted")
        prove("columns-equal-fresh-curve", hc.columns_equal(hc.columns(idnt), hc.columns(fresh)))
        rep = hc.reported(idnt)
        prove("reports-the-request", rep[0] == steps and rep[1] == opts and rep[2] == steps and rep[3] == opts,
              info={"reported": repr(rep)})
        # re-applying changes nothing and runs nothing
        before = hc.columns(idnt)
        runs = len(s.step_runs)
        again = hc.request(s, idnt, name, "apply")
        prove("reapply-accepted", again is None)
        prove("reapply-changes-nothing", hc.columns_equal(before, hc.columns(idnt)))
        if via == "apply":
            prove("reapply-runs-no-step", len(s.step_runs) == runs)
    elif exp is not None and got is not None:
        witness("rejected")
        prove("same-exception-type", type(exp) is type(got), info={"fresh": repr(exp), "history": repr(got)})
        rep = hc.reported(idnt)
        prove("rejected-request-not-reported",
              rep[0] != steps and rep[2] != steps,
              info={"reported": repr(rep), "rejected": repr(steps)})
        # whatever the curve reports after the rejection must be what its data are
        rep_steps = rep[2] if rep[2] is not None else rep[0]
        rep_opts = rep[3] if rep[3] is not None else rep[1]
        witness_curve = s.curve()
        try:
            witness_curve.apply_preprocessing(copy.deepcopy(rep_steps or []), options=copy.deepcopy(rep_opts or {}))
            prove("reported-pipeline-matches-data-after-rejection",
                  hc.columns_equal(hc.columns(idnt), hc.columns(witness_curve))
                  and list(idnt.preprocessing) == list(rep_steps or []),
                  info={"reported": repr(rep)})
        except (ValueError, KeyError, TypeError) as e:
            prove("reported-pipeline-matches-data-after-rejection", False, info={"reported": repr(rep), "e": repr(e)})
        again = hc.request(s, idnt, name, via)
        prove("rejected-again-when-repeated", again is not None and type(again) is type(exp),
              info={"second attempt": repr(again)})
        again2 = hc.request(s, idnt, name, "apply")
        prove("rejected-again-via-apply", again2 is not None, info={"third attempt": repr(again2)})
    return {"history": [f"{OPS[i][0]}/{OPS[i][1]}" for i in hist],
            "outcomes": ["ok" if o is None else type(o).__name__ for o in outcomes]}


def classify(task, ob):
    last = OPS[task["args"]["hist"][-1]]
    kind = "rejected" if last[0].startswith("X_") else "accepted"
    return f"{ob['name']}:{kind}"


def replay(task, ob, model):
    hist = [OPS[i] for i in task["args"]["hist"]]
    return common.REPLAY_HEAD + f'''
import nanite, copy
from nanite import model as nmodel
PIPELINES = {hc.PIPELINES!r}
hist = {hist!r}
def curve():
    x = np.linspace(2e-6, -1e-6, 40); f = np.concatenate([np.zeros(25) + 1e-11 * np.sin(np.arange(25)), np.linspace(0, 5e-9, 15) ** 1.0])
    return nanite.Indentation(data={{"height (measured)": x.copy(), "force": f.copy(), "time": np.arange(40.) / 40,
                                    "segment": np.zeros(40, dtype=np.uint8)}},
                              metadata={{"path": "/sym/c.jpk-force", "enum": 0, "point count": 40,
                                        "imaging mode": "force-distance", "spring constant": 0.1}})
def request(idnt, name, via):
    steps, opts = copy.deepcopy(PIPELINES[name])
    try:
        if via == "apply":
            idnt.apply_preprocessing(steps, options=opts)
        else:
            P = nmodel.models_available["hertz_cone"].get_parameter_defaults()
            idnt.fit_model(preprocessing=steps, preprocessing_options=opts, model_key="hertz_cone",
                           params_initial=P, range_x=[0, 0], segment=0, weight_cp=0, gcf_k=1)
    except (ValueError, KeyError, TypeError) as e:
        return e
    return None
a = curve(); raw0 = {{k: v.copy() for k, v in a._raw_data.items()}}
outs = [request(a, n, v) for n, v in hist]
name, via = hist[-1]
steps, opts = PIPELINES[name]
b = curve(); exp = request(b, name, via)
bad = []
if (exp is None) != (outs[-1] is None):
    bad.append(f"acceptance differs: fresh={{exp!r}} history={{outs[-1]!r}}")
if any(not np.array_equal(raw0[k], a._raw_data[k]) for k in raw0):
    bad.append("raw data modified")
if exp is None and outs[-1] is None:
    FIT = ("fit", "fit residuals", "fit range")
    ca = [c for c in a.columns if c not in FIT]; cb = [c for c in b.columns if c not in FIT]
    if set(ca) != set(cb) or any(not np.array_equal(a[c], b[c], equal_nan=True) for c in cb):
        bad.append("columns differ from fresh curve")
    if a.preprocessing != steps or a.fit_properties.get("preprocessing") != steps:
        bad.append("request not reported")
elif exp is not None and outs[-1] is not None:
    FIT = ("fit", "fit residuals", "fit range")
    if a.preprocessing == steps or a.fit_properties.get("preprocessing") == steps:
        bad.append(f"rejected request reported as applied: preprocessing={{a.preprocessing}} fit_properties={{a.fit_properties.get('preprocessing')}}")
    rs = a.fit_properties.get("preprocessing", a.preprocessing); ro = a.fit_properties.get("preprocessing_options", a.preprocessing_options)
    c = curve()
    try:
        c.apply_preprocessing(copy.deepcopy(rs or []), options=copy.deepcopy(ro or dict()))
        ca = [k for k in a.columns if k not in FIT]; cc = [k for k in c.columns if k not in FIT]
        if set(ca) != set(cc) or any(not np.array_equal(a[k], c[k], equal_nan=True) for k in cc) or list(a.preprocessing) != list(rs or []):
            bad.append(f"after the rejection the curve reports {{rs}} but its data are not those of that pipeline (columns {{sorted(ca)}})")
    except (ValueError, KeyError, TypeError) as e:
        bad.append(f"reported pipeline {{rs}} is itself rejected: {{e!r}}")
    again = request(a, name, via)
    if again is None:
        bad.append("rejected request silently accepted when repeated")
    if request(a, name, "apply") is None:
        bad.append("rejected request accepted via apply_preprocessing afterwards")
print({ob["name"]!r}, bad)
if bad:
    print("REPRODUCED"); sys.exit(1)
sys.exit(0)
'''


def precheck(tier, seed):
    """Concrete re-execution of explored histories on the real nanite with the
    REAL preprocessing steps (traces validated against the implementation):
    acceptance/rejection pattern and reporting must agree with the abstract run."""
    import random
    import subprocess
    rnd = random.Random(seed)
    k = 2 if tier == "quick" else 3
    n = 6 if tier == "quick" else 20
    ok = 0
    for _ in range(n):
        hist = [rnd.randrange(len(OPS)) for _ in range(k)]
        task = {"args": {"hist": hist}}
        script = replay(task, {"name": "trace-validation"}, {})
        import tempfile, os
        fd, path = tempfile.mkstemp(suffix=".py")
        with os.fdopen(fd, "w") as fh:
            fh.write(script)
        try:
            p = subprocess.run(["/venv/bin/python", path], capture_output=True, text=True, timeout=300, cwd="/repo")
        finally:
            os.unlink(path)
        if p.returncode != 0:
            raise AssertionError("trace validation script failed: " + (p.stdout + p.stderr)[-500:])
        ok += 1
    return {"traces_validated": ok, "what": "random explored histories re-executed on real nanite with the real steps"}
