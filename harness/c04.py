"""C04 - reported fit outputs are mutually consistent."""
from fractions import Fraction as Fr

from symx import core, symnp, symlmfit
from symx.core import (real, assume, prove, witness, implies, check_assumptions,
                       sym_ite, same, is_nan, all_of, any_of)

import specs
from harness import common, fitcommon as fc

ID = "C04"
LEVEL = "other"
LAST_WORLD = None
EXPLANATION = (
    "Bounded symbolic verification of the real Indentation.fit_model -> "
    "IndentationFitter.__init__/fit/_fit -> residuals.residual/"
    "compute_contact_point_weights -> model_func chain on a curve of N symbolic "
    "(x, y) samples with a concrete segment layout, symbolic range [a,b], "
    "weighting distance, correction factor k and initial values; the optimiser "
    "is a contract stub returning arbitrary in-bounds values. On every path the "
    "solver shows: 'fit' = literature formula at the optimiser's parameters on "
    "the segment and NaN elsewhere; 'fit residuals' = (data-fit)*w with "
    "w=min(1,|kx-cp|/weight_cp) (1 when off), 0<=w<=1; chi_sqr = sum of squared "
    "weighted residuals over exactly the specified point set; reported contact "
    "point = optimiser's / k; fixed parameters keep their initial values; "
    "xmin/xmax are the extreme measured abscissae of the used points; too few "
    "points <=> success False with all-NaN columns and no params_fitted/chi_sqr.")
ASSUMPTIONS = fc.STUBS + [
    "real arithmetic, not IEEE doubles",
    "contact point unbounded (lmfit default); E>=0; k>0; weight_cp>0 or exactly 0/False",
    "that lmfit honours vary/bounds/expr is the stub's contract, not checked",
    "oracle for the model values: /verif/specs.py (as C02)",
    "multi-pass failure task: contact-point-relative fit, 4 passes, optimiser values arbitrary",
]
BUDGET_S = {"quick": 900, "thorough": 3400}
QUERY_TIMEOUT_MS = {"quick": 60000, "thorough": 240000}

CONFIGS_QUICK = [
    # model, layout, segment, weighting, k, vary
    # (symbolic k with weighting: thorough tier, and C11's glue task in its quick
    # tier; one of its residual queries needs 15-60 s of nlsat)
    ("hertz_cone", "4+2", 0, "on", "half", ["E", "contact_point"]),
    ("hertz_para", "4+2", 0, "off", "half", ["E", "contact_point"]),
    ("hertz_para", "3+3", 1, "on", "one", ["E"]),
    # one varied parameter on five points: successful fits on a strict subset
    # of the segment (witness "strict-subset")
    ("hertz_para", "5+3", 0, "off", "one", ["E"]),
]
CONFIGS_THOROUGH = CONFIGS_QUICK + [
    ("hertz_cone", "4+2", 0, "on", "sym", ["E", "contact_point"]),
    ("hertz_para", "4+2", 0, "on", "sym", ["E", "contact_point"]),
    ("hertz_pyr3s", "3+3", 0, "on", "sym", ["E"]),
    ("sneddon_spher_approx", "3+3", 0, "off", "one", ["E"]),
    ("hertz_cone", "5+3", 0, "on", "half", ["E", "contact_point", "baseline"]),
    ("hertz_cone", "6+0", 0, "off", "sym", ["E", "contact_point", "baseline"]),
]


def bounds(tier):
    cfg = CONFIGS_QUICK if tier == "quick" else CONFIGS_THOROUGH
    return {"configs (model, layout appr+retr, segment, weighting, k, varied)": cfg,
            "range_type": "absolute (relative cp / plateau search: C05, C11)",
            "outside": "longer curves; doubles; optimiser behaviour"}


def tasks(tier):
    cfg = CONFIGS_QUICK if tier == "quick" else CONFIGS_THOROUGH
    ts = []
    for (m, lay, seg, wt, k, vary) in cfg:
        ts.append({"name": f"fit:{m}:{lay}:seg{seg}:w{wt}:k{k}:v{len(vary)}", "fn": "t_fit",
                   "args": {"model_key": m, "layout": lay, "segment": seg, "weighting": wt,
                            "kmode": k, "vary": vary},
                   "witnesses": ["success", "too_few_points"] + (["strict-subset"] if lay == "5+3" and len(vary) == 1 else []),
                   "max_paths": 3000})
    ts.append({"name": "multi-pass-failure:cone:4+2", "fn": "t_multipass_failure",
               "args": {"model_key": "hertz_cone", "layout": "4+2"}, "max_paths": 6000,
               "witnesses": ["later-pass-too-few-points"]})
    return ts


def t_multipass_failure(model_key, layout):
    """A contact-point-relative fit whose first (whole-segment) pass succeeds
    and whose later pass selects too few points: the fit is unsuccessful and
    must not show stale numbers."""
    global LAST_WORLD
    w, idnt, x, y, seg, P, init = fc.setup(layout, model_key, ["E"])
    LAST_WORLD = w
    a, b = real("ra"), real("rb")
    check_assumptions()
    try:
        idnt.fit_model(model_key=model_key, params_initial=P, range_x=[a, b], range_type="relative cp",
                       segment=0, weight_cp=0, gcf_k=1)
    except KeyError:
        return {"outcome": "first pass failed"}
    core.count("transitions")
    fp = idnt.fit_properties
    if fp["success"] is True:
        return {"outcome": "success"}
    witness("later-pass-too-few-points")
    prove("multipass-fail:fit-all-nan", all(is_nan(v) for v in idnt["fit"].elems))
    prove("multipass-fail:residuals-all-nan", all(is_nan(v) for v in idnt["fit residuals"].elems))
    prove("multipass-fail:no-stale-results",
          not any(kk in fp for kk in ("params_fitted", "chi_sqr", "xmin", "xmax")),
          info={"keys": sorted(str(k) for k in fp if k in ("params_fitted", "chi_sqr", "xmin", "xmax"))})
    return {"outcome": "later pass failed", "optimiser_calls": len(symlmfit.CALLS)}


def _not(b):
    return (not b) if isinstance(b, bool) else (b == False)   # noqa: E712 - symbolic negation


def t_fit(model_key, layout, segment, weighting, kmode, vary):
    global LAST_WORLD
    w, idnt, x, y, seg, P, init = fc.setup(layout, model_key, vary)
    LAST_WORLD = w
    n = len(seg)
    a, b = real("ra"), real("rb")
    if weighting == "on":
        wcp = real("weight_cp")
        assume(wcp > 0)
    else:
        wcp = 0
    if kmode == "sym":
        k = real("k")
        assume(k > 0)
    elif kmode == "half":
        k = Fr(1, 2)
    else:
        k = 1
    check_assumptions()
    init_state = {nm: p.__getstate__() for nm, p in P.items()}
    idnt.fit_model(model_key=model_key, params_initial=P, range_x=[a, b],
                   range_type="absolute", segment=segment, weight_cp=wcp, gcf_k=k)
    core.count("transitions")
    fp = idnt.fit_properties
    fit = idnt["fit"].elems
    res = idnt["fit residuals"].elems
    rng = idnt["fit range"].elems
    inr = [fc.in_range(x[i], seg[i], segment, a, b) for i in range(n)]
    cnt = 0
    for c in inr:
        cnt = cnt + (0 if c is False else sym_ite(c, 1, 0))
    npv = len(vary)
    for i in range(n):
        prove(f"range[{i}]", same(rng[i], inr[i]))
    prove("success-iff-enough-points", implies(cnt - 1 > npv, fp["success"] is True))
    if fp["success"] is not True:
        witness("too_few_points")
        prove("fail:guard", npv >= cnt - 1)
        prove("fail:fit-all-nan", all(is_nan(v) for v in fit))
        prove("fail:residuals-all-nan", all(is_nan(v) for v in res))
        prove("fail:no-stale-results",
              not any(kk in fp for kk in ("params_fitted", "chi_sqr", "xmin", "xmax")))
        prove("fail:no-optimisation", len(symlmfit.CALLS) == 0)
        return {"outcome": "too few points", "decisions": len(core.cur().decisions)}
    witness("success")
    witness("strict-subset", core.any_of([_not(rng[i])
                                          for i in range(n) if seg[i] == segment]))
    prove("ok:guard", npv < cnt - 1)
    prove("ok:one-optimisation", len(symlmfit.CALLS) == 1)
    call = symlmfit.CALLS[-1]
    opt = dict(call["opt_values"])
    rep = {nm: p.value for nm, p in fp["params_fitted"].items()}
    # reported contact point is the optimiser's divided by k
    prove("reported-cp", rep["contact_point"] * k == opt["contact_point"])
    for nm in rep:
        if nm != "contact_point":
            prove(f"reported[{nm}]", same(rep[nm], opt[nm]))
        if nm not in vary:
            prove(f"fixed-keeps-initial[{nm}]", same(rep[nm], init[nm]))
    spec_r = {}
    for i in range(n):
        if seg[i] != segment:
            prove(f"fit-nan-off-segment[{i}]", is_nan(fit[i]) and is_nan(res[i]))
            continue
        xk = x[i] * k
        F = fc.spec_force(model_key, opt, xk)
        prove(f"fit[{i}]", same(fit[i], F))
        if weighting == "on":
            wgt = fc.spec_weight(xk, opt["contact_point"], wcp)
            prove(f"weight-in-unit-interval[{i}]", all_of([wgt >= 0, wgt <= 1]))
        else:
            wgt = 1
        r = (y[i] - F) * wgt
        spec_r[i] = r
        prove(f"residual[{i}]", same(res[i], r))
    # chi-square: the reported value is the optimiser's sum of squares of the
    # residual vector it minimised; that vector must be the specified weighted
    # residual on exactly the specified point set.
    prove("chi_sqr:reported-is-sum-of-squares-at-result",
          same(fp["chi_sqr"], call["result"].chisqr))
    R = symnp.asarray(call["residual_at_result"])
    if R.present is not None:
        assert len(R._idx) == n
        for i in range(n):
            prove(f"chi_sqr:point-set[{i}]", same(R.present[i], inr[i]))
            if i in spec_r:
                prove(f"chi_sqr:term[{i}]", implies(inr[i], R.elems[i] == spec_r[i]))
    else:
        used = [i for i in range(n) if rng[i] is True]
        prove("chi_sqr:point-set", len(used) == len(R._idx) and all(v in (True, False) for v in rng))
        for j, i in enumerate(used):
            prove(f"chi_sqr:term[{i}]", same(R.elems[j], spec_r[i]))
    xmin, xmax = fp["xmin"], fp["xmax"]
    prove("xmin-lower-bound", all_of([implies(inr[i], xmin <= x[i]) for i in range(n)]))
    prove("xmin-attained", any_of([all_of([inr[i], xmin == x[i]]) for i in range(n)]))
    prove("xmax-upper-bound", all_of([implies(inr[i], xmax >= x[i]) for i in range(n)]))
    prove("xmax-attained", any_of([all_of([inr[i], xmax == x[i]]) for i in range(n)]))
    # the caller's initial-parameter object is not part of C04 (C10/C11)
    return {"outcome": "success", "decisions": len(core.cur().decisions),
            "sample_fit_term": str(fit[0])[:200]}


def classify(task, ob):
    return ob["name"].split("[")[0]


def _replay_multipass(task, ob, model):
    g = lambda nm, d=0.0: float(model.get(nm, d))
    seg = fc.LAYOUTS[task["args"]["layout"]]
    n = len(seg)
    opts = {}
    for kk, v in model.items():
        if kk.startswith("opt_"):
            _, idx, rest = kk.split("_", 2)
            opts.setdefault(int(idx), {})[rest.split("!")[0]] = float(v)
    init = {kk[5:]: float(v) for kk, v in model.items() if kk.startswith("init_")}
    return common.REPLAY_HEAD + f'''
import lmfit, nanite, copy
from nanite import model as nmodel
import nanite.fit as nfit
x = np.array({[g(f"x{i}") for i in range(n)]!r}); y = np.array({[g(f"y{i}") for i in range(n)]!r}); seg = np.array({seg!r}, dtype=np.uint8)
ra, rb = {g("ra")!r}, {g("rb")!r}; opts = {opts!r}; init = {init!r}
idnt = nanite.Indentation(data={{"tip position": x.copy(), "force": y.copy(), "segment": seg}},
                          metadata={{"path": "/sym/c.jpk-force", "enum": 0, "point count": len(x), "imaging mode": "force-distance"}})
P = nmodel.models_available[{task["args"]["model_key"]!r}].get_parameter_defaults()
for nm, p in P.items():
    p.vary = nm == "E"
    if nm in init: p.value = init[nm]
calls = []
def fake_minimize(fcn, params, method="leastsq", args=(), **kw):
    out = copy.deepcopy(params); o = opts.get(len(calls), {{}})
    for nm, p in out.items():
        if p.vary and nm in o: p.value = o[nm]
    r = fcn(out, *args)
    class R: pass
    res = R(); res.params = out; res.chisqr = float(np.sum(np.asarray(r) ** 2)); res.success = True
    calls.append(1); return res
nfit.lmfit.minimize = fake_minimize
try:
    idnt.fit_model(model_key={task["args"]["model_key"]!r}, params_initial=P, range_x=[ra, rb], range_type="relative cp",
                   segment=0, weight_cp=0, gcf_k=1)
except KeyError as e:
    print("first pass failed", e); sys.exit(0)
fp = idnt.fit_properties
bad = []
if not fp["success"]:
    if not np.all(np.isnan(idnt["fit"])): bad.append("fit column holds numbers after an unsuccessful fit")
    if not np.all(np.isnan(idnt["fit residuals"])): bad.append("residual column holds numbers after an unsuccessful fit")
    stale = [k for k in ("params_fitted", "chi_sqr", "xmin", "xmax") if k in fp]
    if stale: bad.append("fit_properties keep %s of an earlier pass (E=%r) although success is False" % (stale, fp["params_fitted"]["E"].value))
name = {ob["name"]!r}
bad = [b_ for b_ in bad if ("stale" in name) == ("fit_properties keep" in b_)]
print(name, bad)
if bad:
    print("REPRODUCED"); sys.exit(1)
sys.exit(0)
'''


def replay(task, ob, model):
    """Replay on the real code: run the real fit with lmfit.minimize patched
    to return the model's optimiser values, then re-evaluate the consistency
    relations numerically."""
    if task["fn"] == "t_multipass_failure":
        return _replay_multipass(task, ob, model)
    a = task["args"]
    seg = fc.LAYOUTS[a["layout"]]
    n = len(seg)
    g = lambda nm, d=0.0: float(model.get(nm, d))
    x = [g(f"x{i}") for i in range(n)]
    y = [g(f"y{i}") for i in range(n)]
    k = {"sym": g("k", 1.0), "half": 0.5, "one": 1.0}[a["kmode"]]
    wcp = g("weight_cp", 1e-6) if a["weighting"] == "on" else 0
    opt = {kk.split("_", 2)[2].split("!")[0]: float(v) for kk, v in model.items() if kk.startswith("opt_")}
    init = {kk[5:]: float(v) for kk, v in model.items() if kk.startswith("init_")}
    return common.REPLAY_HEAD + f'''
import specs, lmfit, nanite, copy
from nanite import model as nmodel
import nanite.fit as nfit
x = np.array({x!r}); y = np.array({y!r}); seg = np.array({seg!r}, dtype=np.uint8)
k = {k!r}; wcp = {wcp!r}; ra, rb = {g("ra")!r}, {g("rb")!r}
opt = {opt!r}; init = {init!r}; vary = {a["vary"]!r}; segment = {a["segment"]!r}
model_key = {a["model_key"]!r}
idnt = nanite.Indentation(data={{"tip position": x.copy(), "force": y.copy(), "segment": seg}},
                          metadata={{"path": "/sym/c.jpk-force", "enum": 0, "point count": len(x),
                                    "imaging mode": "force-distance"}})
P = nmodel.models_available[model_key].get_parameter_defaults()
for nm, p in P.items():
    p.vary = nm in vary
    if nm in init:
        p.value = init[nm]
calls = []
def fake_minimize(fcn, params, method="leastsq", args=(), **kw):
    out = copy.deepcopy(params)
    for nm, p in out.items():
        if p.vary and nm in opt:
            p.value = opt[nm]
    r = fcn(out, *args)
    class R: pass
    res = R(); res.params = out; res.chisqr = float(np.sum(np.asarray(r)**2)); res.success = True
    calls.append(out.valuesdict())
    return res
lmfit.minimize = fake_minimize
nfit.lmfit.minimize = fake_minimize
idnt.fit_model(model_key=model_key, params_initial=P, range_x=[ra, rb], range_type="absolute",
               segment=segment, weight_cp=wcp, gcf_k=k)
fp = idnt.fit_properties
bad = []
inr = np.array([(seg[i] == segment) and (ra == rb or min(ra, rb) <= x[i] <= max(ra, rb)) for i in range(len(x))])
if not np.array_equal(np.asarray(idnt["fit range"], dtype=bool), inr):
    bad.append("fit range")
npv = len(vary)
if fp["success"] != (npv < inr.sum() - 1):
    bad.append("success flag vs point count")
if not fp["success"]:
    if not (np.all(np.isnan(idnt["fit"])) and np.all(np.isnan(idnt["fit residuals"]))):
        bad.append("columns not NaN after failed fit")
    if any(kk in fp for kk in ("params_fitted", "chi_sqr", "xmin", "xmax")):
        bad.append("stale results after failed fit")
else:
    o = calls[-1]
    rep = fp["params_fitted"].valuesdict()
    tol = lambda u, v: abs(u - v) <= 1e-9 * max(abs(u), abs(v), 1e-300)
    if not tol(rep["contact_point"] * k, o["contact_point"]):
        bad.append("reported contact point")
    for nm in rep:
        if nm != "contact_point" and not tol(rep[nm], o[nm]):
            bad.append("reported " + nm)
        if nm not in vary and nm in init and not tol(rep[nm], init[nm]):
            bad.append("fixed parameter changed: " + nm)
    F = np.array(specs.force_float(model_key, list(x * k), o))
    sel = seg == segment
    w = np.ones_like(x)
    if wcp:
        w = np.minimum(1, np.abs(x * k - o["contact_point"]) / wcp)
    r = (y - F) * w
    sc = max(np.max(np.abs(F[sel])), np.max(np.abs(y[sel])), 1e-300)
    if not np.allclose(idnt["fit"][sel], F[sel], rtol=1e-9, atol=1e-12 * sc) or not np.all(np.isnan(idnt["fit"][~sel])):
        bad.append("fit column")
    if not np.allclose(idnt["fit residuals"][sel], r[sel], rtol=1e-9, atol=1e-12 * sc) or not np.all(np.isnan(idnt["fit residuals"][~sel])):
        bad.append("residual column")
    chi = float(np.sum(r[inr] ** 2))
    if not abs(fp["chi_sqr"] - chi) <= 1e-9 * max(chi, 1e-300):
        bad.append("chi_sqr")
    if fp["xmin"] != x[inr].min() or fp["xmax"] != x[inr].max():
        if not (tol(fp["xmin"], x[inr].min()) and tol(fp["xmax"], x[inr].max())):
            bad.append("xmin/xmax")
print("obligation:", {ob["name"]!r}, "-> inconsistent:", bad)
if bad:
    print("REPRODUCED")
    sys.exit(1)
sys.exit(0)
'''
