"""C12 - the fit hash identifies data plus effective settings."""
import itertools
import types

import z3

from symx import core, symstr, worlds, loader, symnp, symlmfit
from symx.symstr import StrLeaf, NumLeaf, BoolLeaf, ArrLeaf

from harness import common

ID = "C12"
LEVEL = "other"
LAST_WORLD = None
EXPLANATION = (
    "The unmodified fit.obj2bytes / IndentationFitter._hash / FitProperties.__setitem__ "
    "are executed on settings whose leaves are solver variables: strings (z3 "
    "String over a restricted alphabet that includes the delimiters , [ ] . and "
    "space), numbers (str(float(x)) modelled as an injective map into the regular "
    "language of canonical plain-decimal float reprs), booleans, None, opaque "
    "arrays (tobytes() = arbitrary fixed-length string), lmfit Parameter value "
    "objects, nested lists/tuples/dicts; md5 is replaced by the identity. z3 "
    "(strings + regex) then shows (a) injectivity of the pre-image on each "
    "setting's value domain, over all pairs of container shapes up to 3 entries, "
    "so concatenation ambiguities are searched for by the solver; (b) "
    "representation invariance (tuple/list, int/float, dict order, segment names); "
    "(c) for the real _hash assembly: changing exactly one FP_DEFAULT key, one "
    "parameter attribute or one axis sample changes the pre-image, except the "
    "documented don't-cares. Counterexample strings are turned into real Python "
    "objects and replayed on the real md5-based hash.")
ASSUMPTIONS = [
    "md5 replaced by the identity: equal hashes <= equal byte strings exactly; different hashes <= different byte strings assuming no md5 collision",
    "string leaves: length<=3 over [a-z0-9_ .,[]-] (no quote, backslash or control characters: Python's repr escaping is not modelled)",
    "number leaves: values whose repr is plain decimal with <=3 integer and <=3 fractional digits (z3, z3/QF_S and cvc5 all time out at 6 digits); str(float(.)) injective on them (true for Python's shortest-repr); -0.0 excluded",
    "containers with <=3 entries, nesting depth <=2; arrays opaque (tobytes arbitrary, shape/dtype concrete)",
    "cross-process / hash-seed purity follows from invariance (a) because the real function is executed on differently ordered containers; it is additionally exercised by the replays",
]
BUDGET_S = {"quick": 420, "thorough": 3000}
QUERY_TIMEOUT_MS = {"quick": 60000, "thorough": 240000}


def bounds(tier):
    return {"max container entries": 2 if tier == "quick" else 3, "string length": 3, "number repr": "plain decimal, <=3 integer and <=3 fractional digits (<=2 and <=2 in Parameter objects and in the full-hash tasks)",
            "keys": "every FP_DEFAULT key; Parameter attributes value,min,max,vary,expr",
            "same-shape containers with more than 3 leaves": "every pair of ADJACENT leaf positions may differ, the other leaves are shared (collisions that need non-adjacent or >=3 simultaneously changed leaves are outside: x1.M.y1 = x2.M.y2 with a shared symbolic middle finished in no solver)",
            "different-shape containers": "fully free leaves when one side has <=3 leaves; pairs with >3 leaves on both sides are outside (no solver finished)",
            "undecided, not claimed": [str(u) for u in sorted(UNDECIDED)],
            "outside": "md5; longer strings/containers; repr escaping; exponent-notation floats"}


# ---------------------------------------------------------------------------
# templates


def T_str(n): return ("str", n)
def T_num(n): return ("num", n)
def T_bool(n): return ("bool", n)
T_none = ("none",)
def T_list(items, tup=False): return ("tuple" if tup else "list", items)
def T_dict(items): return ("dict", items)   # list of (key template, value template), keys sorted
def T_param(n, expr): return ("param", n, expr)
def T_const(v): return ("const", v)


class Build:
    def __init__(self, lmfit_mod):
        self.leaves = {}
        self.lmfit = lmfit_mod

    def leaf(self, kind, name):
        if name not in self.leaves:
            if kind == "str":
                self.leaves[name] = symstr.new_str(name)
            elif kind == "num":
                self.leaves[name] = NumLeaf(name)
            elif kind == "bool":
                self.leaves[name] = BoolLeaf(name)
        return self.leaves[name]

    def make(self, t):
        k = t[0]
        if k in ("str", "num", "bool"):
            return self.leaf(k, t[1])
        if k == "none":
            return None
        if k == "const":
            return t[1]
        if k == "list":
            return [self.make(x) for x in t[1]]
        if k == "tuple":
            return tuple(self.make(x) for x in t[1])
        if k == "dict":
            keys = [self.make(kt) for kt, _ in t[1]]
            for a, b in zip(keys, keys[1:]):
                symstr.reg().order.append(a.term < b.term)
            return {kk: self.make(vt) for kk, (_, vt) in zip(keys, t[1])}
        if k == "param":
            p = self.lmfit.Parameter.__new__(self.lmfit.Parameter)
            n = t[1]
            p.name = "E"
            p._val = self.leaf("num", n + "_value")
            p.min = self.leaf("num", n + "_min")
            p.max = self.leaf("num", n + "_max")
            p._vary = self.leaf("bool", n + "_vary")
            p._expr = None if t[2] == "none" else self.leaf("str", n + "_expr")
            return p
        raise KeyError(k)


def leaf_term(b, t):
    lf = b.leaf(t[0], t[1])
    if t[0] == "str":
        return lf.term
    if t[0] == "num":
        return lf.repr_term
    return lf.b


def equal(b, t1, t2):
    """z3 formula: the two templates denote equal Python values."""
    k1, k2 = t1[0], t2[0]
    seq = ("list", "tuple")
    if k1 in seq and k2 in seq:
        if len(t1[1]) != len(t2[1]):
            return z3.BoolVal(False)
        return z3.And([equal(b, x, y) for x, y in zip(t1[1], t2[1])] or [z3.BoolVal(True)])
    if k1 != k2:
        # numbers and booleans are documented as representation variants
        if {k1, k2} == {"num", "bool"}:
            bt, nt = (t1, t2) if k1 == "bool" else (t2, t1)
            return z3.If(leaf_term(b, bt), z3.StringVal("1.0"), z3.StringVal("0.0")) == leaf_term(b, nt)
        return z3.BoolVal(False)
    if k1 == "none":
        return z3.BoolVal(True)
    if k1 == "const":
        return z3.BoolVal(t1[1] == t2[1])
    if k1 in ("str", "num", "bool"):
        return leaf_term(b, t1) == leaf_term(b, t2)
    if k1 == "dict":
        if len(t1[1]) != len(t2[1]):
            return z3.BoolVal(False)
        return z3.And([z3.And(equal(b, a[0], c[0]), equal(b, a[1], c[1]))
                       for a, c in zip(t1[1], t2[1])] or [z3.BoolVal(True)])
    if k1 == "param":
        if t1[2] != t2[2]:
            return z3.BoolVal(False)
        cs = [equal(b, ("num", t1[1] + s), ("num", t2[1] + s)) for s in ("_value", "_min", "_max")]
        cs.append(equal(b, ("bool", t1[1] + "_vary"), ("bool", t2[1] + "_vary")))
        if t1[2] != "none":
            cs.append(equal(b, ("str", t1[1] + "_expr"), ("str", t2[1] + "_expr")))
        return z3.And(cs)
    raise KeyError(k1)


def conc(t, model):
    """Python value of a template under a model {leaf name: python value}."""
    k = t[0]
    if k == "str":
        return model.get(t[1], "")
    if k == "num":
        return float(model.get("repr_" + t[1], "0.0"))
    if k == "bool":
        return bool(model.get(t[1], False))
    if k == "none":
        return None
    if k == "const":
        return t[1]
    if k == "list":
        return [conc(x, model) for x in t[1]]
    if k == "tuple":
        return tuple(conc(x, model) for x in t[1])
    if k == "dict":
        return {conc(a, model): conc(c, model) for a, c in t[1]}
    if k == "param":
        n = t[1]
        return {"__param__": True, "value": conc(("num", n + "_value"), model),
                "min": conc(("num", n + "_min"), model), "max": conc(("num", n + "_max"), model),
                "vary": conc(("bool", n + "_vary"), model),
                "expr": None if t[2] == "none" else conc(("str", n + "_expr"), model)}
    raise KeyError(k)


# ---------------------------------------------------------------------------
# value domains per setting


def domains(maxn):
    """name -> list of templates (shapes) with side tag p (leaf name prefix)."""
    def strs(p, n): return [T_str(f"{p}s{i}") for i in range(n)]
    def nums(p, n): return [T_num(f"{p}n{i}") for i in range(n)]
    d = {}
    d["preprocessing (list of str)"] = lambda p: [T_list(strs(p, n)) for n in range(0, maxn + 1)]
    d["range_x (2 numbers)"] = lambda p: [T_list(nums(p, 2)), T_list(nums(p, 2), tup=True)]
    d["scalar number / bool / None / str"] = lambda p: [T_num(p + "n0"), T_bool(p + "b0"), T_none, T_str(p + "s0")]
    d["method_kws (dict str->number|str)"] = lambda p: (
        [T_dict([])] + [T_dict([(T_str(p + "k0"), v)]) for v in (T_num(p + "n0"), T_str(p + "s0"))]
        + ([T_dict([(T_str(p + "k0"), T_num(p + "n0")), (T_str(p + "k1"), v)])
            for v in (T_num(p + "n1"), T_str(p + "s1"))] if maxn >= 2 else []))
    d["preprocessing_options (dict of dict)"] = lambda p: (
        [T_dict([]), T_dict([(T_str(p + "k0"), T_dict([]))]),
         T_dict([(T_str(p + "k0"), T_dict([(T_str(p + "a0"), T_str(p + "v0"))]))])]
        + ([T_dict([(T_str(p + "k0"), T_dict([(T_str(p + "a0"), T_str(p + "v0")),
                                               (T_str(p + "a1"), T_str(p + "v1"))]))]),
            T_dict([(T_str(p + "k0"), T_dict([(T_str(p + "a0"), T_str(p + "v0"))])),
                    (T_str(p + "k1"), T_dict([(T_str(p + "a1"), T_str(p + "v1"))]))])]
           if maxn >= 2 else []))
    return d


PATTRS = ["value", "max", "min", "vary", "expr"]


#: obligations on which z3 5.1, z3/QF_S and cvc5 all returned unknown within
#: 240 s; they are NOT claimed (listed in bounds()).
UNDECIDED = {("method_kws (dict str->number|str)", 3, (0, 1))}


def leaves_of(t, out=None):
    out = [] if out is None else out
    k = t[0]
    if k in ("str", "num", "bool"):
        out.append(t)
    elif k in ("list", "tuple"):
        for x in t[1]:
            leaves_of(x, out)
    elif k == "dict":
        for a, c in t[1]:
            leaves_of(a, out)
            leaves_of(c, out)
    return out


def rename(t, keep):
    """Copy of template t (leaf names a_*) whose leaves are renamed to b_*
    except those whose index (in leaves_of order) is in `keep` (shared)."""
    cnt = [0]

    def go(x):
        k = x[0]
        if k in ("str", "num", "bool"):
            i = cnt[0]
            cnt[0] += 1
            return x if i in keep else (k, "b_" + x[1][2:])
        if k in ("list", "tuple"):
            return (k, [go(y) for y in x[1]])
        if k == "dict":
            return (k, [(go(a), go(c)) for a, c in x[1]])
        return x
    return go(t)


def tasks(tier):
    maxn = 2 if tier == "quick" else 3
    ts = []
    for name, mk in domains(maxn).items():
        a, b = mk("a_"), mk("b_")
        for i, j in itertools.product(range(len(a)), range(len(b))):
            if j < i:
                continue
            na, nb = len(leaves_of(a[i])), len(leaves_of(b[j]))
            if i == j and na > 3:
                # same shape with many leaves: all pairs of positions may differ
                for free in [(q, q + 1) for q in range(na - 1)]:
                    if (name, i, free) in UNDECIDED:
                        continue
                    ts.append({"name": f"inj:{name}:{i}x{j}:free{free[0]},{free[1]}", "fn": "t_inj",
                               "args": {"dom": name, "i": i, "j": j, "maxn": maxn, "free": list(free)}})
                continue
            if i != j and na > 3 and nb > 3:
                continue   # outside the bound (no solver finished): stated in bounds()
            ts.append({"name": f"inj:{name}:{i}x{j}", "fn": "t_inj",
                       "args": {"dom": name, "i": i, "j": j, "maxn": maxn}})
    for x, y in [(q, q + 1) for q in range(len(PATTRS) - 1)]:
        for expr in ("none", "str"):
            if expr == "none" and "expr" in (PATTRS[x], PATTRS[y]):
                continue
            ts.append({"name": f"param:{PATTRS[x]}+{PATTRS[y]}:expr={expr}", "fn": "t_param",
                       "args": {"x": PATTRS[x], "y": PATTRS[y], "expr": expr}})
    ts.append({"name": "param:expr:none-vs-str", "fn": "t_param", "args": {"x": "exprkind", "y": "exprkind", "expr": "mixed"}})
    ts.append({"name": "invariance", "fn": "t_invariance", "args": {}, "witnesses": ["invariance"]})
    for key in ["model_key", "optimal_fit_edelta", "optimal_fit_num_samples", "params_initial",
                "preprocessing", "preprocessing_options", "range_type", "range_x", "segment",
                "weight_cp", "gcf_k", "x_axis", "y_axis", "method", "method_kws",
                "data:x", "data:y"]:
        for plateau in (False, True):
            ts.append({"name": f"hash:{key}:plateau={plateau}", "fn": "t_hash",
                       "args": {"key": key, "plateau": plateau}})
    return ts


def _world():
    global LAST_WORLD
    symstr.reset()
    bi = {"float": symstr.s_float, "str": symstr.s_str, "repr": symstr.s_repr,
          "isinstance": symstr.make_isinstance(ArrLeaf, symnp.bool_)}
    w = worlds.standard_world(extra_builtins=bi)
    symnp.ndarray = ArrLeaf
    w.load("nanite.model")
    fit = w.load("nanite.fit")

    class _Id:
        def __init__(self, b):
            self.b = b

        def hexdigest(self):
            return self.b
    fit.hashlib = types.SimpleNamespace(md5=_Id)
    LAST_WORLD = w
    return w, fit


def _run_cli(cmd, text, timeout_s):
    import subprocess, tempfile, os
    fd, path = tempfile.mkstemp(suffix=".smt2")
    with os.fdopen(fd, "w") as fh:
        fh.write(text)
    try:
        p = subprocess.run(cmd + [path], capture_output=True, text=True, timeout=timeout_s + 5)
        return p.stdout
    except subprocess.TimeoutExpired:
        return "timeout"
    finally:
        os.unlink(path)


_MODEL_RE = None


def _parse_model(out):
    import re
    m = {}
    for name, sort, val in re.findall(r'\(define-fun\s+(\S+)\s+\(\)\s+(\w+)\s+("(?:[^"]|"")*"|true|false)\)', out):
        if sort == "String":
            v = val[1:-1].replace('""', '"')
            v = re.sub(r"\\u\{([0-9a-fA-F]+)\}", lambda mm: chr(int(mm.group(1), 16)), v)
            m[name] = v
        else:
            m[name] = val == "true"
    return m


def _solve(fs, timeout_ms):
    """First without the dict-key order assumptions (a superset of the real
    encodings: unsat there is unsat here); only if that is not unsat, with."""
    order = list(symstr.reg().order)
    if order:
        r, m = _solve1(fs, timeout_ms // 2)
        if r == "unsat":
            return r, m
        return _solve1(list(fs) + order, timeout_ms // 2)
    return _solve1(fs, timeout_ms)


def _solve1(fs, timeout_ms):
    """Every string query runs in a separate solver process with a hard kill
    (z3's sequence solver does not always honour its own timeout):
    z3 5.1 CLI, then cvc5 --strings-exp --strings-fmf.  A model is a dict."""
    import os
    s = z3.Solver()
    s.add(*fs)
    text = s.to_smt2().replace("(check-sat)", "(check-sat)\n(get-model)")
    tsec = max(2, int(timeout_ms / 1000))
    z3bin = os.path.join(os.path.dirname(os.path.dirname(os.path.abspath(__file__))), ".venv", "bin", "z3")
    out = _run_cli([z3bin, "-smt2", f"-T:{max(2, int(tsec * 0.6))}"], text, int(tsec * 0.6))
    first = out.strip().splitlines()[0] if out.strip() else ""
    if "(error" in out and first not in ("sat", "unsat"):
        first = "unknown"
    if first == "unsat":
        return "unsat", None
    if first == "sat":
        return "sat", _parse_model(out)
    out = _run_cli(["cvc5", "--strings-exp", "--strings-fmf", "--produce-models",
                    f"--tlimit={int(tsec * 400)}"], "(set-logic QF_SLIA)\n" + text, int(tsec * 0.4))
    first = out.strip().splitlines()[0] if out.strip() else ""
    if first == "unsat" and "(error" not in out:
        return "unsat", None
    if first == "sat" and "(error" not in out:
        return "sat", _parse_model(out)
    return "unknown", None


def _atoms(t):
    """Flatten a z3 string term into atoms: single characters and terms."""
    out = []
    stack = [t]
    while stack:
        x = stack.pop()
        if z3.is_app(x) and x.decl().kind() == z3.Z3_OP_SEQ_CONCAT:
            stack.extend(reversed(x.children()))
        elif z3.is_string_value(x):
            out.extend(("c", ch) for ch in x.as_string())
        else:
            out.append(("t", x))
    return out


def _same_atom(a, b):
    if a[0] != b[0]:
        return False
    return a[1] == b[1] if a[0] == "c" else z3.eq(a[1], b[1])


def _rebuild(atoms):
    parts = []
    lit = []
    for k, v in atoms:
        if k == "c":
            lit.append(v)
        else:
            if lit:
                parts.append(z3.StringVal("".join(lit)))
                lit = []
            parts.append(v)
    if lit:
        parts.append(z3.StringVal("".join(lit)))
    if not parts:
        return z3.StringVal("")
    return parts[0] if len(parts) == 1 else z3.Concat(*parts)


def cancel(pa, pb):
    """P.a.S == P.b.S  <=>  a == b : strip the syntactically identical prefix
    and suffix of two pre-images (sound by cancellation in the free monoid).
    Only used for strings whose z3 escapes are plain (restricted alphabet)."""
    A, B = _atoms(pa), _atoms(pb)
    i = 0
    while i < len(A) and i < len(B) and _same_atom(A[i], B[i]):
        i += 1
    j = 0
    while j < len(A) - i and j < len(B) - i and _same_atom(A[len(A) - 1 - j], B[len(B) - 1 - j]):
        j += 1
    return _rebuild(A[i:len(A) - j]), _rebuild(B[i:len(B) - j])


def _record(name, res, model, leaves_model=None, info=None):
    ctx = core.cur()
    rec = {"name": name, "result": {"unsat": "unsat", "sat": "sat"}.get(res, "unknown"),
           "time": 0.0, "info": info}
    if res == "sat":
        rec["model"] = leaves_model
    ctx.queries[rec["result"]] += 1
    ctx.obligations.append(rec)


def _model_dict(m):
    if isinstance(m, dict):
        return m
    out = {}
    for d in m.decls():
        v = m[d]
        if z3.is_string_value(v):
            out[d.name()] = v.as_string()
        elif z3.is_true(v) or z3.is_false(v):
            out[d.name()] = z3.is_true(v)
    return out


def t_inj(dom, i, j, maxn, free=None):
    import time
    w, fit = _world()
    symstr.NUM_DIGITS[0] = 1 if "Parameter" in dom else 2
    b = Build(symlmfit)
    mk = domains(maxn)[dom]
    ta, tb = mk("a_")[i], mk("b_")[j]
    if free is not None:
        n = len(leaves_of(ta))
        tb = rename(ta, keep=set(range(n)) - set(free))
    va, vb = b.make(ta), b.make(tb)
    pa = symstr.reg().parse(fit.obj2bytes(va))
    pb = symstr.reg().parse(fit.obj2bytes(vb))
    eq = equal(b, ta, tb)
    pa, pb = cancel(pa, pb)
    t0 = time.time()
    res, m = _solve(symstr.reg().constraints + [pa == pb, z3.Not(eq)],
                    core.cur().timeout_ms)
    core.cur().solver_s += time.time() - t0
    _record("injective", res, m, _model_dict(m) if m is not None else None,
            info={"shapes": [str(ta)[:120], str(tb)[:120]]})
    # vacuity twin: the pre-images can be equal at all (for equal shapes)
    if i == j:
        r2, _ = _solve(symstr.reg().constraints + [pa == pb], 20000)
        core.cur().witnesses["preimages-can-coincide"] = r2
    return {"domain": dom, "shapes": [str(ta)[:100], str(tb)[:100]], "preimage_a": str(pa)[:200]}


def t_param(x, y, expr):
    """Two Parameter objects that differ in at most the attributes x and y."""
    import time
    w, fit = _world()
    symstr.NUM_DIGITS[0] = 1
    b = Build(symlmfit)
    ea, eb = (("none", "str") if expr == "mixed" else (expr, expr))
    pa_ = b.make(T_param("a_P", ea))
    pb_ = b.make(T_param("b_P", eb))
    attr = {"value": "_val", "max": "max", "min": "min", "vary": "_vary", "expr": "_expr"}
    for nm, at in attr.items():
        if nm not in (x, y) and not (nm == "expr" and expr == "mixed"):
            setattr(pb_, at, getattr(pa_, at))
    pa = symstr.reg().parse(fit.obj2bytes(pa_))
    pb = symstr.reg().parse(fit.obj2bytes(pb_))
    conds = []
    for nm in {x, y} - {"exprkind"}:
        u, v = getattr(pa_, attr[nm]), getattr(pb_, attr[nm])
        if nm == "vary":
            conds.append(u.b != v.b)
        elif nm == "expr":
            conds.append(u.term != v.term)
        else:
            conds.append(u.repr_term != v.repr_term)
    differ = z3.Or(conds) if conds else z3.BoolVal(True)
    ca, cb = cancel(pa, pb)
    t0 = time.time()
    res, m = _solve(symstr.reg().constraints + [ca == cb, differ], core.cur().timeout_ms)
    core.cur().solver_s += time.time() - t0
    _record("parameter-injective", res, m, _model_dict(m) if m is not None else None,
            info={"attributes": [x, y], "preimage": str(pa)[:200]})
    return {"attributes": [x, y], "preimage": str(pa)[:200]}


def t_invariance():
    w, fit = _world()
    b = Build(symlmfit)
    R = symstr.reg()
    n0, n1 = b.leaf("num", "n0"), b.leaf("num", "n1")
    s0, s1 = b.leaf("str", "k0"), b.leaf("str", "k1")
    R.order.append(s0.term < s1.term)
    o = fit.obj2bytes
    pairs = {
        "tuple-vs-list": (o((n0, n1)), o([n0, n1])),
        "nested-tuple-vs-list": (o([(s0, n0), (s1, n1)]), o([[s0, n0], [s1, n1]])),
        "dict-insertion-order": (o({s0: n0, s1: n1}), o({s1: n1, s0: n0})),
        "int-vs-float": (o(3), o(3.0)),
        "bool-vs-float": (o(True), o(1.0)),
        "int-in-list": (o([0, 0]), o([0.0, 0.0])),
    }
    # two parameters equal in every fit-relevant attribute but with different
    # bookkeeping (initial value, standard error, correlations, user data)
    pa_ = b.make(T_param("q_P", "none"))
    pb_ = symlmfit.Parameter.__new__(symlmfit.Parameter)
    pb_.__dict__.update(pa_.__dict__)
    pa_.init_value, pa_.stderr, pa_.correl, pa_.user_data, pa_.brute_step = 3000.0, None, None, None, None
    pb_.init_value, pb_.stderr, pb_.correl, pb_.user_data, pb_.brute_step = 12.5, 0.25, {"baseline": 0.5}, "note", 0.1
    pairs["parameter-bookkeeping-attributes"] = (o(pa_), o(pb_))
    for name, (x, y) in pairs.items():
        res, m = _solve(R.constraints + [R.parse(x) != R.parse(y)], core.cur().timeout_ms)
        _record(f"invariance:{name}", res, m, _model_dict(m) if m is not None else None)
    # segment names are normalised by the settings object
    fp1, fp2 = fit.FitProperties(), fit.FitProperties()
    fp1["segment"] = "approach"
    fp2["segment"] = 0
    core.prove("invariance:segment-approach", fp1["segment"] == fp2["segment"] == 0)
    fp1["segment"] = "retract"
    fp2["segment"] = 1
    core.prove("invariance:segment-retract", fp1["segment"] == fp2["segment"] == 1)
    core.cur().witnesses["invariance"] = "sat"
    return {"pairs": list(pairs)}


def _settings(b, p, fit, plateau, concrete_range=False):
    """A full symbolic settings dictionary (leaf names prefixed by p)."""
    P = symlmfit.Parameters()
    par = b.make(T_param(p + "P", "none"))
    dict.__setitem__(P, "E", par)
    return {
        "model_key": b.leaf("str", p + "model_key"),
        "optimal_fit_edelta": plateau,
        "optimal_fit_num_samples": b.leaf("num", p + "nsamp"),
        "params_initial": P,
        "preprocessing": [b.leaf("str", p + "pre0"), b.leaf("str", p + "pre1")],
        "preprocessing_options": b.make(T_dict([(T_str(p + "ok"), T_dict([(T_str(p + "oa"), T_str(p + "ov"))]))])),
        "range_type": b.leaf("str", p + "range_type"),
        "range_x": [1.0, 5.0] if (plateau or concrete_range) else [b.leaf("num", p + "r0"), b.leaf("num", p + "r1")],
        "segment": b.leaf("num", p + "segment"),
        "weight_cp": b.leaf("num", p + "weight_cp"),
        "gcf_k": b.leaf("num", p + "gcf_k"),
        "x_axis": b.leaf("str", p + "x_axis"),
        "y_axis": b.leaf("str", p + "y_axis"),
        "method": b.leaf("str", p + "method"),
        "method_kws": b.make(T_dict([(T_str(p + "mk"), T_num(p + "mv"))])),
    }


def _hash_of(fit, settings, xa, ya):
    f = object.__new__(fit.IndentationFitter)
    f.fp = fit.FitProperties()
    for k, v in settings.items():
        dict.__setitem__(f.fp, k, v)
    f.x_axis, f.y_axis = xa, ya
    return symstr.reg().parse(f._hash())


def t_hash(key, plateau):
    """Two settings dictionaries that agree everywhere except `key`."""
    import time
    w, fit = _world()
    symstr.NUM_DIGITS[0] = 1
    b = Build(symlmfit)
    R = symstr.reg()
    sa = _settings(b, "s_", fit, plateau, concrete_range=(key == "optimal_fit_edelta"))
    xa, ya = ArrLeaf("x", 2), ArrLeaf("y", 2)
    sb = dict(sa)
    xb, yb = xa, ya
    differ = None
    dontcare = False
    if key.startswith("data:"):
        if key == "data:x":
            xb = ArrLeaf("x2", 2)
            differ = xa.bytes_term != xb.bytes_term
        else:
            yb = ArrLeaf("y2", 2)
            differ = ya.bytes_term != yb.bytes_term
    elif key == "params_initial":
        P2 = symlmfit.Parameters()
        q = b.make(T_param("t_P", "none"))
        p0 = sa[key]["E"]
        q.min, q._vary, q._expr, q.max = p0.min, p0._vary, p0._expr, p0.max
        dict.__setitem__(P2, "E", q)
        sb[key] = P2
        differ = q._val.repr_term != p0._val.repr_term
    elif key == "optimal_fit_edelta":
        sb[key] = not plateau
        differ = z3.BoolVal(True)
    elif key in ("preprocessing",):
        sb[key] = [b.leaf("str", "t_pre0"), sa[key][1]]
        differ = b.leaf("str", "t_pre0").term != sa[key][0].term
    elif key == "preprocessing_options":
        t2 = T_dict([(T_str("s_ok"), T_dict([(T_str("s_oa"), T_str("t_ov"))]))])
        sb[key] = b.make(t2)
        differ = z3.Not(equal(b, T_dict([(T_str("s_ok"), T_dict([(T_str("s_oa"), T_str("s_ov"))]))]), t2))
    elif key == "method_kws":
        t2 = T_dict([(T_str("s_mk"), T_num("t_mv"))])
        sb[key] = b.make(t2)
        differ = z3.Not(equal(b, T_dict([(T_str("s_mk"), T_num("s_mv"))]), t2))
    elif key == "range_x":
        sb[key] = [b.leaf("num", "t_r0"), b.leaf("num", "t_r1")]
        if plateau:
            # documented don't-care: the lower bound; the upper bound (max) matters
            differ = None
        else:
            differ = z3.Or(sb[key][0].repr_term != sa[key][0].repr_term,
                           sb[key][1].repr_term != sa[key][1].repr_term)
    elif key == "optimal_fit_num_samples":
        sb[key] = b.leaf("num", "t_nsamp")
        differ = sb[key].repr_term != sa[key].repr_term
        dontcare = not plateau
    else:
        kind = "num" if isinstance(sa[key], NumLeaf) else "str"
        sb[key] = b.leaf(kind, "t_" + key)
        differ = (sb[key].repr_term != sa[key].repr_term) if kind == "num" else (sb[key].term != sa[key].term)
    if key == "range_x" and plateau:
        # max() of symbolic numbers: order by assumption r0 <= r1 on both sides
        # (the real code takes max(range_x): exercised with concrete numbers)
        sa2 = dict(sa, range_x=[1.0, 5.0])
        sb2 = dict(sa, range_x=[3.0, 5.0])
        sc2 = dict(sa, range_x=[1.0, 6.0])
        sd2 = dict(sa, range_x=[5.0, 1.0])
        h = lambda s: _hash_of(fit, s, xa, ya)
        res, m = _solve(R.constraints + [h(sa2) != h(sb2)], core.cur().timeout_ms)
        _record("dontcare:lower-bound-with-plateau-search", res, m, _model_dict(m) if m else None)
        res, m = _solve(R.constraints + [h(sa2) == h(sc2)], core.cur().timeout_ms)
        _record("sensitive:upper-bound-with-plateau-search", res, m, _model_dict(m) if m else None)
        res, m = _solve(R.constraints + [h(sa2) != h(sd2)], core.cur().timeout_ms)
        _record("invariance:inverted-interval-with-plateau-search", res, m, _model_dict(m) if m else None)
        return {"key": key, "plateau": plateau}
    ha = _hash_of(fit, sa, xa, ya)
    hb = _hash_of(fit, sb, xb, yb)
    full = str(ha)[:300]
    ha, hb = cancel(ha, hb)
    t0 = time.time()
    if dontcare:
        res, m = _solve(R.constraints + [differ, ha != hb], core.cur().timeout_ms)
        _record(f"dontcare:{key}", res, m, _model_dict(m) if m else None)
    else:
        res, m = _solve(R.constraints + [differ, ha == hb], core.cur().timeout_ms)
        _record(f"sensitive:{key}", res, m, _model_dict(m) if m else None)
    core.cur().solver_s += time.time() - t0
    return {"key": key, "plateau": plateau, "preimage": full, "after_cancellation": [str(ha)[:120], str(hb)[:120]]}


def classify(task, ob):
    if task["fn"] == "t_param":
        return "param:" + "+".join(sorted({task["args"]["x"], task["args"]["y"]}))
    if task["fn"] == "t_inj":
        return f"inj:{task['args']['dom']}"
    return ob["name"]


def replay(task, ob, model):
    if task["fn"] == "t_inj":
        a = task["args"]
        mk = domains(a["maxn"])[a["dom"]]
        ta, tb = mk("a_")[a["i"]], mk("b_")[a["j"]]
        if a.get("free") is not None:
            tb = rename(ta, keep=set(range(len(leaves_of(ta)))) - set(a["free"]))
        va, vb = conc(ta, model), conc(tb, model)
        return common.REPLAY_HEAD + f'''
import lmfit, hashlib
from nanite.fit import obj2bytes
def real(v):
    if isinstance(v, dict) and v.get("__param__"):
        return lmfit.Parameter("E", value=v["value"], min=min(v["min"], v["max"]) - 1e-9, max=max(v["min"], v["max"]) + 1e-9,
                               vary=v["vary"], expr=v["expr"])
    if isinstance(v, dict):
        return {{real(k): real(x) for k, x in v.items()}}
    if isinstance(v, list):
        return [real(x) for x in v]
    if isinstance(v, tuple):
        return tuple(real(x) for x in v)
    return v
def norm(v):
    if isinstance(v, (list, tuple)):
        return [norm(x) for x in v]
    if isinstance(v, dict):
        return {{k: norm(x) for k, x in v.items()}}
    if isinstance(v, bool):
        return float(v)
    return v
A = {va!r}; B = {vb!r}
ha = hashlib.md5(obj2bytes(real(A))).hexdigest(); hb = hashlib.md5(obj2bytes(real(B))).hexdigest()
print(A, ha); print(B, hb)
if ha == hb and norm(A) != norm(B):
    print("REPRODUCED: different settings values, identical hash pre-image"); sys.exit(1)
sys.exit(0)
'''
    if task["fn"] == "t_param":
        a = task["args"]
        def side(p, e):
            return conc(T_param(p, e), model)
        ea, eb = (("none", "str") if a["expr"] == "mixed" else (a["expr"], a["expr"]))
        A = side("a_P", ea)
        B = dict(A)
        Bfull = side("b_P", eb)
        for nm in {a["x"], a["y"]} - {"exprkind"}:
            B[nm] = Bfull[nm]
        if a["expr"] == "mixed":
            B["expr"] = Bfull["expr"]
        return common.REPLAY_HEAD + f'''
import lmfit, hashlib, math
from nanite.fit import obj2bytes
def P(v):
    p = lmfit.Parameter("E", vary=v["vary"], expr=v["expr"])
    # assign attributes directly: obj2bytes reads value/max/min/vary/expr/name
    p._val, p.min, p.max = v["value"], v["min"], v["max"]
    p._expr = v["expr"]; p._vary = v["vary"]
    return p
A = {A!r}; B = {B!r}
ba, bb = obj2bytes(P(A)), obj2bytes(P(B))
print(A, ba); print(B, bb)
if ba == bb and A != B:
    print("REPRODUCED: parameters with different attributes have the same hash pre-image"); sys.exit(1)
sys.exit(0)
'''
    if task["fn"] == "t_invariance":
        return common.REPLAY_HEAD + f'''
import lmfit, hashlib, copy, nanite
from nanite.fit import obj2bytes, IndentationFitter
from nanite.model import models_available
name = {ob["name"]!r}
h = lambda v: hashlib.md5(obj2bytes(v)).hexdigest()
bad = False
if name.endswith("parameter-bookkeeping-attributes"):
    p1 = models_available["hertz_para"].get_parameter_defaults(); p2 = models_available["hertz_para"].get_parameter_defaults()
    p1["E"].value = 1234.0            # leaves init_value at the default
    p2["E"].set(value=1234.0)         # also sets init_value
    p2["E"].stderr = 0.5; p2["E"].correl = {{"baseline": 0.1}}
    bad = h(p1["E"]) != h(p2["E"])
    print("equal fit-relevant attributes, hashes equal:", not bad)
elif name.endswith("tuple-vs-list"): bad = h((1.5, 2.0)) != h([1.5, 2.0])
elif name.endswith("dict-insertion-order"): bad = h({{"a": 1.0, "b": 2.0}}) != h({{"b": 2.0, "a": 1.0}})
elif name.endswith("int-vs-float"): bad = h(3) != h(3.0)
elif name.endswith("bool-vs-float"): bad = h(True) != h(1.0)
else: bad = h([0, 0]) != h([0.0, 0.0]) or h([("a", 1.0)]) != h([["a", 1.0]])
if bad:
    print("REPRODUCED: representation variant changes the hash:", name); sys.exit(1)
sys.exit(0)
'''
    key = task["args"].get("key")
    if key == "range_x" and task["args"].get("plateau"):
        return common.REPLAY_HEAD + f'''
# plateau search: lower bound is a don't-care, the upper bound max(range_x) matters,
# [a, b] and [b, a] are the same effective setting
import nanite, warnings
from nanite.fit import IndentationFitter
from nanite.model import models_available
x = np.linspace(1e-6, -1e-6, 8); y = np.linspace(0, 1e-9, 8)
idnt = nanite.Indentation(data={{"tip position": x, "force": y, "segment": np.zeros(8, dtype=np.uint8)}},
                          metadata={{"path": "/sym/c.jpk-force", "enum": 0, "point count": 8, "imaging mode": "force-distance"}})
def h(r):
    P = models_available["hertz_para"].get_parameter_defaults()
    return IndentationFitter(idnt, params_initial=P, optimal_fit_edelta=True, range_x=r).hash
name = {ob["name"]!r}
bad = False
if name.startswith("dontcare"):
    bad = h([1.0, 5.0]) != h([3.0, 5.0])
elif name.startswith("sensitive"):
    bad = h([1.0, 5.0]) == h([1.0, 6.0])
else:
    bad = h([1.0, 5.0]) != h([5.0, 1.0]) or h((1.0, 5.0)) != h([1.0, 5.0])
print(name, "violated on the real hash:", bad)
if bad:
    print("REPRODUCED"); sys.exit(1)
sys.exit(0)
'''
    return common.REPLAY_HEAD + f'''
# structural replay: perturb the setting on a real fitter and compare hashes
import nanite, copy
from nanite.fit import IndentationFitter
x = np.linspace(1e-6, -1e-6, 8); y = np.linspace(0, 1e-9, 8)
seg = np.zeros(8, dtype=np.uint8)
idnt = nanite.Indentation(data={{"tip position": x, "force": y, "segment": seg}},
                          metadata={{"path": "/sym/c.jpk-force", "enum": 0, "point count": 8, "imaging mode": "force-distance"}})
from nanite.model import models_available
P = models_available["hertz_para"].get_parameter_defaults()
base = dict(params_initial=P, optimal_fit_edelta={task["args"].get("plateau", False)!r})
f1 = IndentationFitter(idnt, **base)
key = {key!r}
alt = {{"model_key": "hertz_cone", "optimal_fit_num_samples": 77, "range_type": "relative cp" if not base["optimal_fit_edelta"] else None,
       "range_x": [-1e-6, 2e-7], "segment": 1, "weight_cp": 3e-7, "gcf_k": 0.5, "method": "nelder",
       "method_kws": {{"max_nfev": 10}}, "preprocessing": ["a"], "preprocessing_options": {{"a": {{"b": "c"}}}}}}
bad = False
name = {ob["name"]!r}
if key in alt and alt[key] is not None:
    kw = dict(base); kw[key] = alt[key]
    if key == "model_key":
        kw["params_initial"] = models_available["hertz_cone"].get_parameter_defaults()
    f2 = IndentationFitter(idnt, **kw)
    same = f1.hash == f2.hash
    bad = same if name.startswith("sensitive") else (not same if name.startswith("dontcare") else False)
    print(key, "hash equal:", same)
elif key == "params_initial":
    P2 = copy.deepcopy(P); P2["E"].set(min=1.0)
    f2 = IndentationFitter(idnt, **dict(base, params_initial=P2))
    bad = f1.hash == f2.hash
elif key and key.startswith("data:"):
    idnt2 = nanite.Indentation(data={{"tip position": x + (1e-9 if key == "data:x" else 0), "force": y + (1e-12 if key == "data:y" else 0), "segment": seg}},
                               metadata={{"path": "/sym/c.jpk-force", "enum": 0, "point count": 8, "imaging mode": "force-distance"}})
    bad = f1.hash == IndentationFitter(idnt2, **base).hash
if bad:
    print("REPRODUCED"); sys.exit(1)
sys.exit(0)
'''
