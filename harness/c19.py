"""C19 - CLI profile persists what was entered; producible profiles can be fitted."""
import copy
import itertools
import types
from fractions import Fraction as Fr

from symx import core, symnp, symlmfit, worlds
from symx.core import (real, assume, prove, witness, check_assumptions, same, all_of, is_nan)

from harness import common

ID = "C19"
LEVEL = "other"
LAST_WORLD = None
EXPLANATION = (
    "Symbolic execution of the real cli/profile.py (Profile.__init__/__getitem__/"
    "__setitem__/load/save/get_fit_params/set_fit_params, setup_profile) with the "
    "profile file as an in-memory cell, json as a contract stub and input() as a "
    "script whose numeric answers are solver variables (a string leaf whose float() "
    "is a symbolic real) and whose structural answers are enumerated per prompt. "
    "z3 shows: values written are returned unchanged by new Profile objects over "
    "all set/get sequences of length <=3 over the keys; get_fit_params equals the "
    "model defaults overridden by exactly the stored value/vary entries; every "
    "answer accepted by the setup is the value stored (micrometre prompts times "
    "1e-6, skipped prompts keep the previous value, including a right interval "
    "bound typed without a left one); and every (range_type, range_x, model_key, "
    "preprocessing, segment, weight_cp) the setup can store passes the real "
    "IndentationFitter.__init__ checks and preproc.check_order. The statistics "
    "writer of fit_perform is run with the fit and plotting back ends stubbed: "
    "header plus one row per curve in order with path, enum, fitted E and the "
    "rating rounded to one decimal.")
ASSUMPTIONS = [
    "json is a contract stub: loads(dumps(v)) == v for JSON types (real JSON text and the file system are outside); Path objects are encoded by the real JSONPathEncoder.default",
    "the legacy key=value parser (load_legacy) is not decided here: CrossHair realised the float()/int() conversions on symbolic text, so that clause is not claimed",
    "argparse, appdirs, matplotlib, tifffile, tkinter are inert; fit_data/plot_data/IndentationGroup are stubs in the fit_perform task",
    "training-set prompt answered by skipping (loading a training set is C15's subject)",
]
BUDGET_S = {"quick": 900, "thorough": 2400}
QUERY_TIMEOUT_MS = {"quick": 30000, "thorough": 60000}

KEYS = ["model_key", "preprocessing", "preprocessing_options", "range_type", "range_x", "segment",
        "weight_cp", "rating regressor", "rating training set", "fit param E value", "fit param E vary"]


def bounds(tier):
    return {"set/get sequences": "length <=2 (thorough 3) over %d keys with symbolic numeric values" % len(KEYS),
            "setup scripts": "each prompt skipped or answered; interval prompts: all 4 combinations; range type: '', absolute, relative, invalid-then-absolute; model: each of the registered models",
            "outside": "legacy parser; real JSON text; file system; plots/TIFF"}


def tasks(tier):
    ts = []
    k = 2 if tier == "quick" else 3
    for seq in itertools.product(range(len(KEYS)), repeat=k):
        if tier == "quick" and len(set(seq)) == 1 and seq[0] > 6:
            continue
        ts.append({"name": "setget:" + ">".join(KEYS[i] for i in seq), "fn": "t_setget", "args": {"seq": list(seq)}})
        # the same sequence written through two long-lived profile objects in turn
        # (nanite-fit holds one in fit_perform and one in fit_data)
        ts.append({"name": "setget2:" + ">".join(KEYS[i] for i in seq), "fn": "t_setget",
                   "args": {"seq": list(seq), "writers": 2}})
    ts.append({"name": "fitparams", "fn": "t_fitparams", "args": {}, "witnesses": ["done"]})
    rts = ["", "absolute", "relative", "bogus"]
    for rt in rts:
        for left in (False, True):
            for right in (False, True):
                ts.append({"name": f"setup:rt={rt or 'skip'}:left={left}:right={right}", "fn": "t_setup",
                           "args": {"rt": rt, "left": left, "right": right, "model": 0, "pre": "", "wcp": left},
                           "witnesses": ["setup-done"]})
    for mi in range(1, 5):
        ts.append({"name": f"setup:model{mi}", "fn": "t_setup",
                   "args": {"rt": "", "left": False, "right": False, "model": mi, "pre": "1,3", "wcp": True},
                   "witnesses": ["setup-done"]})
    for pre in ("3,1", "2", "1,2,3,4,5,6", "6,5,4,3,2,1"):
        ts.append({"name": f"setup:pre={pre}", "fn": "t_setup",
                   "args": {"rt": "", "left": False, "right": False, "model": 0, "pre": pre, "wcp": False},
                   "witnesses": ["setup-done"]})
    ts.append({"name": "fit_perform:rows", "fn": "t_rows", "args": {}, "witnesses": ["rows"]})
    return ts


class FakePath:
    """In-memory profile file."""
    def __init__(self, name="/cfg/nanite/cli_profile.cfg"):
        self.name = name
        self.text = None
        self.parent = self

    def mkdir(self, **k):
        pass

    def touch(self):
        if self.text is None:
            self.text = ""

    def exists(self):
        return self.text is not None

    def read_text(self):
        return self.text

    def write_text(self, t):
        self.text = t

    def open(self, mode="r"):
        import io
        return io.StringIO(self.text or "")

    def __str__(self):
        return self.name


class FakeJSON:
    """loads(dumps(v)) == v for JSON types (tuples become lists)."""
    class JSONEncoder:
        def default(self, obj):
            raise TypeError(f"Object of type {type(obj)} is not JSON serializable")

    class decoder:
        class JSONDecodeError(ValueError):
            pass

    def __init__(self):
        self.store = {}

    def _norm(self, v, cls):
        if isinstance(v, dict):
            return {str(k): self._norm(x, cls) for k, x in v.items()}
        if isinstance(v, (list, tuple)):
            return [self._norm(x, cls) for x in v]
        if isinstance(v, (str, bool, int, float, Fr, type(None))) or core.is_sym(v):
            return v
        if isinstance(v, symnp.SymArr):
            raise TypeError("ndarray is not JSON serializable")
        return cls().default(v)

    def dumps(self, obj, cls=None, **kw):
        tok = f"<json {len(self.store)}>"
        self.store[tok] = self._norm(obj, cls or self.JSONEncoder)
        return tok

    def loads(self, text):
        if text not in self.store:
            raise self.decoder.JSONDecodeError("not json")
        return copy.deepcopy(self.store[text])


class NumAnswer(str):
    """A typed numeric answer: non-empty text whose float() is a solver real."""
    def __new__(cls, value):
        o = str.__new__(cls, "<number>")
        o.value = value
        return o


def _world(answers=None):
    global LAST_WORLD
    appdirs = types.ModuleType("appdirs")
    appdirs.user_config_dir = lambda appname=None: "/cfg/" + (appname or "")
    asked = []

    def s_input(prompt=""):
        asked.append(prompt)
        if not answers:
            return ""
        return answers.pop(0) if isinstance(answers, list) else answers(prompt)

    def s_float(x=0.0):
        if isinstance(x, NumAnswer):
            return x.value
        return worlds.s_float(x)
    import afmformats.meta as real_meta
    meta = types.ModuleType("afmformats.meta")
    meta.MetaData = common.PlainMeta
    meta.META_FIELDS = real_meta.META_FIELDS
    w = worlds.standard_world(extra_shims={"appdirs": appdirs, "afmformats.meta": meta},
                              extra_builtins={"input": s_input, "print": lambda *a, **k: None, "float": s_float})
    afm = w.modules["afmformats"]
    fd = w.load("afmformats.mod_force_distance")
    afm.AFMForceDistance = fd.AFMForceDistance
    w.load("nanite.model")
    w.load("nanite.preproc")
    w.load("nanite.rate")
    prof = w.load("nanite.cli.profile")
    js = FakeJSON()
    js.JSONEncoder = FakeJSON.JSONEncoder
    prof.json = js
    # the real encoder subclass must derive from the stub's base: re-create it
    real_default = prof.JSONPathEncoder.default

    class Enc(FakeJSON.JSONEncoder):
        def default(self, obj):
            import pathlib
            if isinstance(obj, (pathlib.Path, FakePath)):
                return f"{obj}"
            return FakeJSON.JSONEncoder.default(self, obj)
    prof.JSONPathEncoder = Enc
    fp = FakePath()
    prof.pathlib = types.SimpleNamespace(Path=lambda p: p if isinstance(p, FakePath) else fp)
    prof.Profile.__init__.__defaults__ = (fp, True)
    prof.setup_profile_parser = lambda: types.SimpleNamespace(parse_args=lambda: None)
    LAST_WORLD = w
    return w, prof, fp, asked


def _value_for(key, j):
    if key in ("weight_cp", "fit param E value"):
        return real(f"val{j}")
    if key == "range_x":
        return [real(f"lo{j}"), real(f"hi{j}")]
    if key == "segment":
        return j % 2
    if key == "preprocessing":
        return [["compute_tip_position"], ["compute_tip_position", "correct_force_offset"], []][j % 3]
    if key == "preprocessing_options":
        return [{"correct_tip_offset": {"method": "fit_constant_line"}}, {}][j % 2]
    if key == "fit param E vary":
        return bool(j % 2)
    if key == "range_type":
        return ["relative cp", "absolute"][j % 2]
    return ["hertz_cone", "hertz_para", "Extra Trees"][j % 3] + str(j)


def _value_for_concrete(key, j, g):
    if key in ("weight_cp", "fit param E value"):
        return g(f"val{j}", 0.5)
    if key == "range_x":
        return [g(f"lo{j}", 0.0), g(f"hi{j}", 1.0)]
    return _value_for(key, j)


def t_setget(seq, writers=1):
    w, prof, fp, asked = _world()
    check_assumptions()
    expect = dict(prof.DEFAULTS)
    objs = [prof.Profile(path=fp) for _ in range(writers)]
    p = objs[0]
    for j, i in enumerate(seq):
        key = KEYS[i]
        v = _value_for(key, j)
        p = objs[j % writers]
        if writers > 1 and key in prof.DEFAULTS:
            # a read through the long-lived object first (reads write the value back)
            p[key]
        p[key] = v
        expect[key] = v
        core.count("transitions")
        # a NEW profile object over the same file returns it
        q = prof.Profile(path=fp)
        for k, want in expect.items():
            # fit-parameter entries are read back through load()/get_fit_params
            got = q[k] if k in prof.DEFAULTS else q.load().get(k)
            if isinstance(want, list) and want and core.is_sym(want[0]):
                prove(f"round-trip[{k}]", len(got) == len(want) and all_of([same(a, b) for a, b in zip(got, want)]))
            elif core.is_sym(want):
                prove(f"round-trip[{k}]", same(got, want))
            else:
                prove(f"round-trip[{k}]", got == want, info={"got": repr(got), "want": repr(want)})
    try:
        p["fit param E minimum"] = 1
        prove("invalid-fit-param-key-rejected", False)
    except ValueError:
        prove("invalid-fit-param-key-rejected", True)
    return {"sequence": [KEYS[i] for i in seq]}


def t_fitparams():
    w, prof, fp, asked = _world()
    p = prof.Profile(path=fp)
    md = w.modules["nanite.model"].models_available
    for mk in sorted(md):
        p["model_key"] = mk
        defaults = md[mk].get_parameter_defaults()
        names = list(defaults)
        v = real("v_" + mk)
        assume(v >= 0)
        core.check_assumptions()
        q = prof.Profile(path=fp)
        q[f"fit param {names[0]} value"] = v
        q[f"fit param {names[-1]} vary"] = not defaults[names[-1]].vary
        got = prof.Profile(path=fp).get_fit_params()
        for nm in names:
            want_val = v if nm == names[0] else defaults[nm].value
            want_vary = (not defaults[nm].vary) if nm == names[-1] else defaults[nm].vary
            prove(f"value[{mk}.{nm}]", same(got[nm].value, want_val))
            prove(f"vary[{mk}.{nm}]", got[nm].vary == want_vary)
            prove(f"bounds-are-the-model-defaults[{mk}.{nm}]",
                  same(got[nm].min, defaults[nm].min) if not core.is_inf(defaults[nm].min) else core.is_inf(got[nm].min))
        # the previous model's entries must not leak into the next model: reset file
        fp.text = None
        p = prof.Profile(path=fp)
    witness("done")
    return {}


def t_setup(rt, left, right, model, pre, wcp):
    steps_all = None
    lv, rv_, wv = real("left_um"), real("right_um"), real("wcp_um")
    script = {}
    w, prof, fp, asked = _world(answers=lambda prompt: script["f"](prompt))
    pp = w.modules["nanite.preproc"]
    steps_all = [s.identifier for s in pp.PREPROCESSORS]
    models = sorted(w.modules["nanite.model"].models_available)
    state = {"rt_tries": 0}

    def answer(prompt):
        if prompt.startswith("(currently") and state.get("stage") is None:
            state["stage"] = "pre"
            return pre
        if state.get("stage") == "pre" and prompt.startswith("(currently"):
            state["stage"] = "model"
            return str(model + 1) if model else ""
        if prompt.startswith("- initial value") or prompt.startswith("  vary"):
            return ""
        if state.get("stage") == "model" and prompt.startswith("(currently"):
            state["rt_tries"] += 1
            if rt == "bogus":
                if state["rt_tries"] == 1:
                    return "relative cp "
                state["stage"] = "interval"
                return "absolute"
            state["stage"] = "interval"
            return rt
        if prompt.startswith("left"):
            return NumAnswer(lv) if left else ""
        if prompt.startswith("right"):
            return NumAnswer(rv_) if right else ""
        if prompt.startswith("size"):
            return NumAnswer(wv) if wcp else ""
        return ""
    script["f"] = answer
    assume(wv >= 0)
    check_assumptions()
    before = dict(prof.DEFAULTS)
    try:
        prof.setup_profile()
    except ValueError as e:
        core.violated("setup-does-not-crash-on-skipped-prompts", info={"exception": repr(e)[:120],
                                                                        "left typed": left, "right typed": right})
        return {"raised": repr(e)[:80]}
    witness("setup-done")
    p = prof.Profile(path=fp)
    # -- every accepted answer is the value stored
    exp_pre = [steps_all[int(i) - 1] for i in pre.split(",")] if pre else before["preprocessing"]
    prove("stored-preprocessing-is-the-answer", p["preprocessing"] == exp_pre, info={"stored": p["preprocessing"]})
    exp_model = models[model] if model else before["model_key"]
    prove("stored-model-is-the-answer", p["model_key"] == exp_model)
    accepted_rt = {"": before["range_type"], "absolute": "absolute", "relative": "relative", "bogus": "absolute"}[rt]
    stored_rt = p["range_type"]
    prove("range-type-answer-recorded", stored_rt.startswith(accepted_rt), info={"stored": stored_rt})
    rx = p["range_x"]
    want_l = lv * Fr(1, 10**6) if left else before["range_x"][0]
    want_r = rv_ * Fr(1, 10**6) if right else before["range_x"][1]
    prove("left-bound-is-the-answer-in-metres", same(rx[0], want_l))
    prove("right-bound-is-the-answer-in-metres", same(rx[1], want_r), info={"left typed": left, "right typed": right})
    prove("weighting-distance-is-the-answer-in-metres",
          same(p["weight_cp"], wv * Fr(1, 10**6) if wcp else before["weight_cp"]))
    # -- every producible profile is accepted by the batch fit's own checks
    fit = w.load("nanite.fit")
    n = 4
    x = [real(f"x{i}") for i in range(n)]
    cols = {"tip position": symnp.SymArr(x), "force": symnp.SymArr([real(f"y{i}") for i in range(n)]),
            "segment": symnp.SymArr([0] * n, dtype=symnp.uint8)}

    class Curve(dict):
        fit_properties = {}
    cur = Curve(cols)
    fit.obj2bytes = lambda o: b"t"
    import warnings
    try:
        with warnings.catch_warnings():
            warnings.simplefilter("ignore")
            fit.IndentationFitter(cur, model_key=p["model_key"], params_initial=p.get_fit_params(),
                                  range_type=p["range_type"], range_x=p["range_x"], segment=p["segment"],
                                  weight_cp=p["weight_cp"])
        ok, err = True, None
    except fit.FitKeyError as e:
        ok, err = False, e
    prove("producible-profile-accepted-by-the-fitter", ok, info={"range_type": stored_rt, "error": repr(err)[:120]})
    try:
        closed = all(r in p["preprocessing"] for s in p["preprocessing"] for r in (pp.get_func(s).steps_required or []))
        if closed:
            pp.check_order(pp.autosort(p["preprocessing"]))
        prove("stored-steps-are-known", True)
    except KeyError as e:
        prove("stored-steps-are-known", False, info={"e": repr(e)})
    return {"stored range_type": stored_rt}


def t_rows():
    w, prof, fp, asked = _world()
    import afmformats.meta  # noqa
    afm = w.modules["afmformats"]
    w.load("nanite.indent")
    # the rating module pulls in group/read/plotting back ends: stub them
    for nm in ("nanite.group", "nanite.read", "nanite.rate.io", "nanite.cli.plotting"):
        w.modules[nm] = types.ModuleType(nm)
        w.modules[nm].__dict__["__builtins__"] = w.bi   # marks the stub as loaded
    w.modules["nanite.group"].IndentationGroup = None
    w.modules["nanite.read"].get_data_paths_enum = None
    w.modules["nanite.cli.plotting"].plot_data = lambda *a, **k: None
    w.modules["nanite.rate"].io = w.modules["nanite.rate.io"]
    rating = w.load("nanite.cli.rating")
    p = prof.Profile(path=fp)
    rating.Profile = prof.Profile
    written = []

    class FakeFile:
        def __init__(self, mode):
            if mode == "w":
                written.clear()

        def write(self, t):
            written.append(t)

        def __enter__(self):
            return self

        def __exit__(self, *a):
            return False

    class OutPath:
        def __truediv__(self, name):
            o = OutPath()
            o.name = name
            return o

        def open(self, mode="r"):
            return FakeFile(mode)

        def __fspath__(self):
            return "/out/" + getattr(self, "name", "")
    rating.pathlib = types.SimpleNamespace(Path=lambda p_: OutPath())
    rating.fspath = lambda p_: "/out/plots.tif"

    class Tiff:
        def __init__(self, *a, **k):
            pass

        def __enter__(self):
            return self

        def __exit__(self, *a):
            return False

        def write(self, *a, **k):
            pass
    rating.tifffile = types.SimpleNamespace(TiffWriter=Tiff)
    rating.mpimg = types.SimpleNamespace(imread=lambda b: symnp_zero())
    groups = {"/d/a.jpk": [("/d/a.jpk", 0, Fr(1500), Fr(431, 100))],
              "/d/b.jpk": [("/d/b.jpk", 0, Fr(20), Fr(-1)), ("/d/b.jpk", 1, Fr(33), Fr(725, 100))]}

    class Curve:
        def __init__(self, path, enum, E, rt):
            self.path, self.enum = path, enum
            P = symlmfit.Parameters()
            P.add("E", value=E)
            self.fit_properties = {"params_fitted": P}
            self._rt = rt

        def rate_quality(self, training_set=None, regressor=None):
            return float(self._rt)
    afm.find_data = lambda path, modality=None: list(groups)
    rating.afmformats = afm
    rating.IndentationGroup = lambda pp_: [Curve(*c) for c in groups[pp_]]
    fitted = []
    rating.fit_data = lambda idnt, profile_path=None: fitted.append(idnt)
    rating.plot_data = lambda *a, **k: None

    class Img:
        def __mul__(self, o):
            return self

        def astype(self, t):
            return self
    rating.mpimg = types.SimpleNamespace(imread=lambda b: Img())
    rating.fit_perform("/d", "/out", profile_path=fp)
    witness("rows")
    lines = "".join(written).split("\n")
    prove("header", lines[0] == "path\tenum\tE\trating")
    exp = [c for g in groups for c in groups[g]]
    prove("one-row-per-curve-in-order", len([l for l in lines[1:] if l]) == len(exp))
    for line, (pth, en, E, rt) in zip(lines[1:], exp):
        cells = line.split("\t")
        prove(f"row[{pth}:{en}]", cells[0] == pth and cells[1] == str(en) and Fr(cells[2]) == E
              and cells[3] == str(round(float(rt), 1)), info={"row": line})
    prove("every-curve-fitted-once", len(fitted) == len(exp))
    return {"rows": len(lines) - 1}


def symnp_zero():
    return 0


def classify(task, ob):
    return f"{task['fn']}:{ob['name'].split('[')[0]}"


def replay(task, ob, model):
    a = task["args"]
    g = lambda nm, d=0.0: float(model.get(nm, d))
    if task["fn"] == "t_setup":
        return common.REPLAY_HEAD + f'''
import builtins, tempfile, pathlib, types, warnings
import nanite.cli.profile as prof
import nanite.preproc as pp, nanite.fit as nfit, nanite
from nanite.model import models_available
rt, left, right, model, pre, wcp = {a["rt"]!r}, {a["left"]!r}, {a["right"]!r}, {a["model"]!r}, {a["pre"]!r}, {a["wcp"]!r}
lv, rv, wv = {g("left_um", 1.5)!r}, {g("right_um", 2.5)!r}, {g("wcp_um", 0.3)!r}
d = pathlib.Path(tempfile.mkdtemp(prefix="c19_")); path = d / "cli_profile.cfg"
prof.Profile.__init__.__defaults__ = (path, True)
prof.setup_profile_parser = lambda: types.SimpleNamespace(parse_args=lambda: None)
state = {{"stage": None, "rt_tries": 0}}
def answer(prompt=""):
    if prompt.startswith("(currently") and state["stage"] is None:
        state["stage"] = "pre"; return pre
    if state["stage"] == "pre" and prompt.startswith("(currently"):
        state["stage"] = "model"; return str(model + 1) if model else ""
    if prompt.startswith("- initial value") or prompt.startswith("  vary"): return ""
    if state["stage"] == "model" and prompt.startswith("(currently"):
        state["rt_tries"] += 1
        if rt == "bogus":
            if state["rt_tries"] == 1: return "relative cp "
            state["stage"] = "interval"; return "absolute"
        state["stage"] = "interval"; return rt
    if prompt.startswith("left"): return repr(lv) if left else ""
    if prompt.startswith("right"): return repr(rv) if right else ""
    if prompt.startswith("size"): return repr(wv) if wcp else ""
    return ""
builtins.input = answer
builtins.print = lambda *a, **k: None
before = dict(prof.DEFAULTS)
bad = []
try:
    prof.setup_profile()
except ValueError as e:
    sys.stdout.write("REPRODUCED: setup_profile crashed: %r\n" % (e,)); sys.exit(1)
p = prof.Profile(path=path)
rx = p["range_x"]
wl = lv * 1e-6 if left else before["range_x"][0]; wr = rv * 1e-6 if right else before["range_x"][1]
if abs(rx[0] - wl) > 1e-15 + 1e-9 * abs(wl): bad.append("left bound %r != %r" % (rx[0], wl))
if abs(rx[1] - wr) > 1e-15 + 1e-9 * abs(wr): bad.append("right bound %r != %r" % (rx[1], wr))
ww = wv * 1e-6 if wcp else before["weight_cp"]
if abs(p["weight_cp"] - ww) > 1e-9 * abs(ww): bad.append("weight_cp %r != %r" % (p["weight_cp"], ww))
x = np.linspace(1e-6, -1e-6, 8)
idnt = nanite.Indentation(data={{"tip position": x, "force": x * 0, "segment": np.zeros(8, dtype=np.uint8)}},
                          metadata={{"path": "/s/c.jpk-force", "enum": 0, "point count": 8, "imaging mode": "force-distance"}})
try:
    with warnings.catch_warnings():
        warnings.simplefilter("ignore")
        nfit.IndentationFitter(idnt, model_key=p["model_key"], params_initial=p.get_fit_params(), range_type=p["range_type"],
                               range_x=p["range_x"], segment=p["segment"], weight_cp=p["weight_cp"])
except nfit.FitKeyError as e:
    bad.append("profile produced by the setup is rejected by the fitter: range_type=%r (%s)" % (p["range_type"], e))
import shutil; shutil.rmtree(d, ignore_errors=True)
sys.stdout = sys.__stdout__
builtins.print = print = type(sys.stdout).write and (lambda *a_, **k_: sys.stdout.write(" ".join(str(v) for v in a_) + "\\n"))
print({ob["name"]!r}, bad)
if bad:
    print("REPRODUCED"); sys.exit(1)
sys.exit(0)
'''
    if task["fn"] == "t_fitparams":
        v = g("v_hertz_para", 0.0)
        return common.REPLAY_HEAD + f'''
import tempfile, pathlib, shutil
import nanite.cli.profile as prof
from nanite.model import models_available
d = pathlib.Path(tempfile.mkdtemp(prefix="c19_")); path = d / "cli_profile.cfg"
bad = []
for mk in sorted(models_available):
    if path.exists(): path.unlink()
    p = prof.Profile(path=path); p["model_key"] = mk
    defaults = models_available[mk].get_parameter_defaults(); names = list(defaults)
    for v in ({v!r}, 0.0, 123.5):
        q = prof.Profile(path=path)
        q["fit param %s value" % names[0]] = v
        q["fit param %s vary" % names[-1]] = not defaults[names[-1]].vary
        got = prof.Profile(path=path).get_fit_params()
        if got[names[0]].value != v: bad.append("%s.%s: stored %r, returned %r" % (mk, names[0], v, got[names[0]].value))
        if got[names[-1]].vary != (not defaults[names[-1]].vary): bad.append("%s.%s vary" % (mk, names[-1]))
        for nm in names[1:-1]:
            if got[nm].value != defaults[nm].value or got[nm].vary != defaults[nm].vary: bad.append("%s.%s changed" % (mk, nm))
shutil.rmtree(d, ignore_errors=True)
print({ob["name"]!r}, bad[:4])
if bad:
    print("REPRODUCED"); sys.exit(1)
sys.exit(0)
'''
    if task["fn"] == "t_setget":
        seq = [KEYS[i] for i in a["seq"]]
        vals = []
        for j, key in enumerate(seq):
            v = _value_for_concrete(key, j, g)
            vals.append(v)
        return common.REPLAY_HEAD + f'''
import tempfile, pathlib, shutil
import nanite.cli.profile as prof
d = pathlib.Path(tempfile.mkdtemp(prefix="c19_")); path = d / "cli_profile.cfg"
seq, vals, writers = {seq!r}, {vals!r}, {a.get("writers", 1)!r}
objs = [prof.Profile(path=path) for _ in range(writers)]
expect = dict(prof.DEFAULTS); bad = []
for j, (key, v) in enumerate(zip(seq, vals)):
    p = objs[j % writers]
    if writers > 1 and key in prof.DEFAULTS: p[key]
    p[key] = v; expect[key] = v
    q = prof.Profile(path=path)
    for k, want in expect.items():
        got = q[k] if k in prof.DEFAULTS else q.load().get(k)
        if got != want: bad.append("after step %d: %s is %r, written %r" % (j, k, got, want))
shutil.rmtree(d, ignore_errors=True)
print({ob["name"]!r}, bad[:4])
if bad:
    print("REPRODUCED"); sys.exit(1)
sys.exit(0)
'''
    return None
