"""C03 - fit results depend only on data and current settings, not on history."""
import copy
import itertools
from fractions import Fraction as Fr

from symx import core, symnp, symlmfit
from symx.core import prove, witness, check_assumptions, real, assume, same, all_of

from harness import common, histcommon as hc
from harness.c10 import _pstate, _pstate_eq, _snap, _snap_eq

ID = "C03"
LEVEL = "model_checking"
LAST_WORLD = None
EXPLANATION = (
    "Bounded model checking over operation histories with symbolic data and "
    "symbolic setting values: the real Indentation (fit_model, apply_preprocessing, "
    "fit_properties edits, rate_quality, compute_emodulus_mindelta), FitProperties, "
    "IndentationFitter.__init__/_hash/fit/_fit run on raw columns of N=4 solver "
    "variables with abstract deterministic preprocessing steps and a *functional* "
    "optimiser stub (equal arguments give the same result term, otherwise a fresh "
    "one). After every history of k operations the oracle is a fresh curve on which "
    "the stored preprocessing and the stored fit settings are applied once. z3 "
    "shows: whenever results are visible (hash present) the fitted parameters, "
    "fit/residual/range columns, chi-square and hash are term-equal to the "
    "oracle's; without a hash no result key is left in fit_properties; a final "
    "fit_model() brings the curve to exactly the oracle's results; and repeating "
    "fit_model() runs the optimiser 0 times and changes nothing.")
ASSUMPTIONS = [
    "abstract deterministic preprocessing steps; lmfit.minimize functional contract stub; obj2bytes/md5 replaced by a structural token (C12 decides the byte encoding)",
    "rate_quality uses a stub rater returning an arbitrary real (C09 decides rating)",
    "stale 'fit' columns that remain after a direct settings edit (results dropped from fit_properties, no hash) are not counted as visible results",
    "N=4 samples, one segment; operation alphabet below; setting values symbolic (range bounds, weighting distance, initial modulus)",
]
BUDGET_S = {"quick": 1200, "thorough": 3400}
QUERY_TIMEOUT_MS = {"quick": 30000, "thorough": 60000}

OPS = ["pre:A", "pre:B", "pre:X_missing_prerequisite", "pre:A:details",
       "fit", "fit:range_x", "fit:weight_cp", "fit:gcf_k", "fit:segment-name", "fit:model_key",
       "fit:params_initial", "fit:params_initial-bound", "fit:params_initial-vary", "fit:method", "fit:preprocessing-B2", "fit:preprocessing_options-only", "fit:unknown-key", "fit:unknown-model",
       "set:weight_cp", "set:range_x", "set:unknown-key", "rate", "emodulus-mindelta"]


THOROUGH_K3_DROPPED = ("fit:unknown-model", "set:unknown-key", "fit:segment-name", "fit:method")


def bounds(tier):
    return {"history length k": 2 if tier == "quick" else "2 over all operations, 3 over all but " + ", ".join(THOROUGH_K3_DROPPED),
            "operations": OPS, "N": hc.N,
            "extra": "quick: also the 23 length-3 histories pre:A > emodulus-mindelta > op",
            "scan": "the E(depth) scan is an uninterpreted function of segment data and settings (internals: C05)",
            "outside": "longer histories; relative-cp/plateau fits inside histories (C05/C11); real numerics"}


def tasks(tier):
    k = 2 if tier == "quick" else 3
    ts = []
    if k == 2:
        hists = list(itertools.product(range(len(OPS)), repeat=2))
    else:
        # thorough: every length-2 history over the full alphabet plus every
        # length-3 history over the alphabet without four operations that
        # duplicate the effect of another one (two more raising calls, the
        # segment given by name, the method keyword)
        idx3 = [i for i, o in enumerate(OPS) if o not in THOROUGH_K3_DROPPED]
        hists = list(itertools.product(range(len(OPS)), repeat=2)) + list(itertools.product(idx3, repeat=3))
    for hist in hists:
        ts.append({"name": "hist:" + ">".join(OPS[i] for i in hist), "fn": "t_history",
                   "args": {"hist": list(hist)}, "max_paths": 40000})
    if k == 2:
        # length-3 histories that start with a stored E(depth) scan (it needs a
        # preprocessed curve first, so no length-2 history changes anything after it)
        pre = [OPS.index("pre:A"), OPS.index("emodulus-mindelta")]
        for i in range(len(OPS)):
            hist = pre + [i]
            ts.append({"name": "hist:" + ">".join(OPS[j] for j in hist), "fn": "t_history",
                       "args": {"hist": hist}, "max_paths": 40000,
                       "witnesses": ["scan-stored"] if OPS[i] == "rate" else []})
    return ts


class Vals:
    """Symbolic setting values used by the operations (one set per step)."""

    def __init__(self, j):
        self.a, self.b = real(f"ra{j}"), real(f"rb{j}")
        self.w = real(f"w{j}")
        assume(self.w > 0)
        self.E = real(f"E0_{j}")
        assume(self.E >= 0)


def do_op(s, idnt, op, v):
    fitmod = s.w.modules["nanite.fit"]
    base = {}
    if "tip position" not in idnt:
        # fits need an abscissa: make sure a pipeline that creates it is stored
        pass
    try:
        if op == "pre:A:details":
            st, op_ = copy.deepcopy(hc.PIPELINES["A"])
            core.count("transitions")
            idnt.apply_preprocessing(st, options=op_, ret_details=True)
            return None
        if op.startswith("pre:"):
            return hc.request(s, idnt, op[4:], "apply")
        core.count("transitions")
        if op == "fit":
            idnt.fit_model(**_fit_defaults(s, idnt))
        elif op == "fit:range_x":
            idnt.fit_model(range_x=[v.a, v.b], **_fit_defaults(s, idnt))
        elif op == "fit:weight_cp":
            idnt.fit_model(weight_cp=v.w, **_fit_defaults(s, idnt))
        elif op == "fit:gcf_k":
            idnt.fit_model(gcf_k=Fr(1, 2), **_fit_defaults(s, idnt))
        elif op == "fit:segment-name":
            idnt.fit_model(segment="approach", **_fit_defaults(s, idnt))
        elif op == "fit:model_key":
            idnt.fit_model(model_key="hertz_pyr3s", params_initial=s.params("hertz_pyr3s"),
                           **{k: x for k, x in _fit_defaults(s, idnt).items()
                              if k not in ("model_key", "params_initial")})
        elif op == "fit:params_initial":
            P = s.params()
            P["E"].value = v.E
            idnt.fit_model(params_initial=P, **{k: x for k, x in _fit_defaults(s, idnt).items()
                                                 if k != "params_initial"})
        elif op == "fit:params_initial-bound":
            P = s.params()
            P["E"].set(min=v.E)      # same value, different lower bound
            idnt.fit_model(params_initial=P, **{k: x for k, x in _fit_defaults(s, idnt).items()
                                                 if k != "params_initial"})
        elif op == "fit:params_initial-vary":
            P = s.params()
            P["baseline"].vary = True
            idnt.fit_model(params_initial=P, **{k: x for k, x in _fit_defaults(s, idnt).items()
                                                 if k != "params_initial"})
        elif op == "fit:method":
            idnt.fit_model(method="nelder", **_fit_defaults(s, idnt))
        elif op == "fit:preprocessing-B2":
            st, op_ = copy.deepcopy(hc.PIPELINES["B2"])
            idnt.fit_model(preprocessing=st, preprocessing_options=op_,
                           **{k: x for k, x in _fit_defaults(s, idnt).items() if not k.startswith("preprocessing")})
        elif op == "fit:preprocessing_options-only":
            # new options for the current steps, without naming the steps again
            op_ = copy.deepcopy(hc.PIPELINES["B2"][1])
            idnt.fit_model(preprocessing_options=op_,
                           **{k: x for k, x in _fit_defaults(s, idnt).items() if not k.startswith("preprocessing")})
        elif op == "fit:unknown-key":
            idnt.fit_model(no_such_setting=1)
        elif op == "fit:unknown-model":
            idnt.fit_model(model_key="no_such_model")
        elif op == "set:weight_cp":
            idnt.fit_properties["weight_cp"] = v.w
        elif op == "set:range_x":
            idnt.fit_properties["range_x"] = [v.a, v.b]
        elif op == "set:unknown-key":
            idnt.fit_properties["no_such_setting"] = 1
        elif op == "rate":
            idnt.rate_quality()
        elif op == "emodulus-mindelta":
            idnt.compute_emodulus_mindelta()
    except (fitmod.FitKeyError, fitmod.FitDataError, KeyError, ValueError) as e:
        return e
    return None


def _fit_defaults(s, idnt):
    """First fit of a curve needs a model, initial parameters and an abscissa."""
    kw = {}
    fp = idnt.fit_properties
    if "model_key" not in fp:
        kw["model_key"] = "hertz_cone"
    if fp.get("params_initial") is None:
        kw["params_initial"] = s.params(fp.get("model_key", "hertz_cone"))
    if "tip position" not in idnt:
        st, op_ = copy.deepcopy(hc.PIPELINES["A"])
        kw["preprocessing"], kw["preprocessing_options"] = st, op_
    return kw


RESULT_KEYS = ("params_fitted", "chi_sqr", "hash", "success", "xmin", "xmax")


def visible(idnt):
    fp = idnt.fit_properties
    out = {"hash": fp.get("hash"), "chi_sqr": fp.get("chi_sqr"), "success": fp.get("success"),
           "params_fitted": _pstate(fp["params_fitted"]) if "params_fitted" in fp else None}
    for c in hc.FIT_COLUMNS:
        out["col:" + c] = list(idnt[c].elems) if c in idnt else None
    return out


def visible_eq(a, b):
    conds = []
    for k in a:
        u, v = a[k], b[k]
        if u is None or v is None:
            conds.append(u is None and v is None)
        elif k == "params_fitted":
            conds.append(_pstate_eq(u, v))
        elif k.startswith("col:"):
            conds.append(len(u) == len(v) and all_of([same(p, q) for p, q in zip(u, v)]))
        elif k == "hash":
            conds.append(u.eq_formula(v))
        elif k == "success":
            conds.append(u is v)
        else:
            conds.append(same(u, v))
    return all_of(conds)


def stored_settings(s, idnt):
    fitmod = s.w.modules["nanite.fit"]
    fp = idnt.fit_properties
    return {k: copy.deepcopy(fp[k]) for k in fitmod.FP_DEFAULT if k in fp}


def _install_scan_stub(s):
    """compute_emodulus_vs_mindelta (the E(depth) scan; its internals are the
    subject of C05) is replaced by an uninterpreted function of the segment's
    data and of every fit setting: what matters here is only WHEN its stored
    result is discarded."""
    fitmod = s.w.modules["nanite.fit"]

    def scan(self, callback=None):
        segid = self.segment
        X = symnp.asarray(self.x_axis[segid])
        Y = symnp.asarray(self.y_axis[segid])
        h = Fr(0)
        for ex, ey, pr in zip(X.elems, Y.elems, X._present_list()):
            hx = core.sym_uf("cons", [h, ex, ey])
            h = hx if pr is True else (h if pr is False else core.sym_ite(pr, hx, h))
        fp = self.fp
        P = fp["params_initial"]
        states = [p.__getstate__() for p in P.values()]
        num = lambda v: int(v) if isinstance(v, bool) else v
        args = [h] + [st[1] for st in states] + [num(fp["range_x"][0]), num(fp["range_x"][1]),
                                                  num(fp["weight_cp"]), num(fp["gcf_k"])]
        tag = "%s_%s_%s_%s_%s" % (fp["model_key"], fp["method"], "".join("v" if st[2] else "f" for st in states),
                                  str(fp["range_type"]).replace(" ", ""), fp["segment"])
        E = symnp.SymArr([core.sym_uf(f"scanE{j}_{tag}", args) for j in range(2)])
        D = symnp.SymArr([core.sym_uf(f"scanD{j}_{tag}", args) for j in range(2)])
        return E, D
    fitmod.IndentationFitter.compute_emodulus_vs_mindelta = scan


def t_history(hist):
    global LAST_WORLD
    s = hc.Sys()
    LAST_WORLD = s.w
    indmod = s.w.modules["nanite.indent"]

    class _Rater:
        def rate(self, datasets=None, samples=None):
            return [core.fresh_real("rating")]
    indmod.get_rater = lambda **kw: _Rater()
    _install_scan_stub(s)
    vals = [Vals(j) for j in range(len(hist))]
    check_assumptions()
    idnt = s.curve()
    outcomes = []
    for j, i in enumerate(hist):
        outcomes.append(do_op(s, idnt, OPS[i], vals[j]))
    fp = idnt.fit_properties
    # -- oracle: fresh curve, stored preprocessing and stored settings applied once
    settings = stored_settings(s, idnt)
    can_fit = "model_key" in settings and settings.get("params_initial") is not None \
        and ("compute_tip_position" in (idnt.preprocessing or []))
    fresh = s.curve()
    if "preprocessing" in fp:
        # the stored settings are what the curve reports as applied
        prove("stored-pipeline-is-the-remembered-one",
              list(fp["preprocessing"]) == list(idnt.preprocessing or [])
              and fp.get("preprocessing_options") == idnt.preprocessing_options,
              info={"stored": repr((fp["preprocessing"], fp.get("preprocessing_options")))[:200],
                    "remembered": repr((idnt.preprocessing, idnt.preprocessing_options))[:200]})
        fresh.apply_preprocessing(copy.deepcopy(fp["preprocessing"]),
                                  options=copy.deepcopy(fp.get("preprocessing_options")))
    elif idnt.preprocessing:
        fresh.apply_preprocessing(copy.deepcopy(idnt.preprocessing),
                                  options=copy.deepcopy(idnt.preprocessing_options))
    prove("data-columns-equal-fresh-curve", hc.columns_equal(hc.columns(idnt), hc.columns(fresh)))
    if "optimal_fit_E_array" in fp:
        # a stored E(depth) scan is the scan of the stored settings
        witness("scan-stored")
        fresh2 = s.curve()
        if "preprocessing" in fp:
            fresh2.apply_preprocessing(copy.deepcopy(fp["preprocessing"]),
                                       options=copy.deepcopy(fp.get("preprocessing_options")))
        for k in sorted(settings):
            if k not in ("preprocessing", "preprocessing_options"):
                fresh2.fit_properties[k] = copy.deepcopy(settings[k])
        e2, d2 = fresh2.compute_emodulus_mindelta()
        e1, d1 = fp["optimal_fit_E_array"], fp["optimal_fit_delta_array"]
        prove("stored-scan-equals-scan-of-stored-settings",
              len(e1.elems) == len(e2.elems) and all_of([same(u, v) for u, v in zip(e1.elems, e2.elems)]
                                                        + [same(u, v) for u, v in zip(d1.elems, d2.elems)]),
              info={"history": [OPS[i] for i in hist]})
    has_results = "hash" in fp
    if not has_results:
        prove("no-result-keys-without-hash", not any(k in fp for k in ("params_fitted", "chi_sqr", "xmin", "xmax")),
              info={"keys": sorted(str(k) for k in fp)})
    if can_fit:
        n0 = len(symlmfit.CALLS)
        fresh.fit_model(**{k: v for k, v in settings.items()
                           if k not in ("preprocessing", "preprocessing_options")})
        if has_results:
            witness("results-visible")
            prove("visible-results-equal-oracle", visible_eq(visible(idnt), visible(fresh)),
                  info={"history": [OPS[i] for i in hist]})
        # bring the history curve up to date with its stored settings
        idnt.fit_model()
        prove("after-refit-equal-oracle", visible_eq(visible(idnt), visible(fresh)))
        n1 = len(symlmfit.CALLS)
        before = visible(idnt)
        idnt.fit_model()
        prove("repeat-runs-no-optimisation", len(symlmfit.CALLS) == n1)
        prove("repeat-changes-nothing", visible_eq(before, visible(idnt)))
        witness("oracle-fitted")
    return {"history": [OPS[i] for i in hist],
            "outcomes": ["ok" if o is None else type(o).__name__ for o in outcomes],
            "results_visible": has_results, "oracle_fit": can_fit}


def classify(task, ob):
    return ob["name"]


def replay(task, ob, model):
    hist = [OPS[i] for i in task["args"]["hist"]]
    g = lambda nm, d: float(model.get(nm, d))
    vals = [{"a": g(f"ra{j}", -1e-6), "b": g(f"rb{j}", 1e-6), "w": g(f"w{j}", 2e-7) or 2e-7,
             "E": g(f"E0_{j}", 100.0)} for j in range(len(hist))]
    return common.REPLAY_HEAD + f'''
import nanite, copy, lmfit
from nanite import model as nmodel
import nanite.fit as nfit
PIPELINES = {hc.PIPELINES!r}
hist = {hist!r}; vals = {vals!r}
runs = [0]
_min = lmfit.minimize
def counting(*a, **k):
    runs[0] += 1
    return _min(*a, **k)
nfit.lmfit.minimize = counting
def curve():
    x = np.linspace(2e-6, -1e-6, 60); f = np.concatenate([np.zeros(40) + 1e-12 * np.cos(np.arange(40)), np.linspace(0, 5e-9, 20) ** 1.0])
    return nanite.Indentation(data={{"height (measured)": x.copy(), "force": f.copy(), "time": np.arange(60.) / 60,
                                    "segment": np.zeros(60, dtype=np.uint8)}},
                              metadata={{"path": "/sym/c.jpk-force", "enum": 0, "point count": 60,
                                        "imaging mode": "force-distance", "spring constant": 0.1}})
def params(key="hertz_cone"):
    P = nmodel.models_available[key].get_parameter_defaults()
    for nm, p in P.items():
        p.vary = nm == "E"
    return P
def defaults(idnt):
    kw = {{}}; fp = idnt.fit_properties
    if "model_key" not in fp: kw["model_key"] = "hertz_cone"
    if fp.get("params_initial") is None: kw["params_initial"] = params(fp.get("model_key", "hertz_cone"))
    if "tip position" not in idnt:
        st, op = copy.deepcopy(PIPELINES["A"]); kw["preprocessing"], kw["preprocessing_options"] = st, op
    return kw
def do(idnt, op, v):
    try:
        if op == "pre:A:details":
            st, o = copy.deepcopy(PIPELINES["A"]); idnt.apply_preprocessing(st, options=o, ret_details=True)
        elif op.startswith("pre:"):
            st, o = copy.deepcopy(PIPELINES[op[4:]]); idnt.apply_preprocessing(st, options=o)
        elif op == "fit": idnt.fit_model(**defaults(idnt))
        elif op == "fit:range_x": idnt.fit_model(range_x=[v["a"], v["b"]], **defaults(idnt))
        elif op == "fit:weight_cp": idnt.fit_model(weight_cp=v["w"], **defaults(idnt))
        elif op == "fit:gcf_k": idnt.fit_model(gcf_k=0.5, **defaults(idnt))
        elif op == "fit:segment-name": idnt.fit_model(segment="approach", **defaults(idnt))
        elif op == "fit:model_key":
            idnt.fit_model(model_key="hertz_pyr3s", params_initial=params("hertz_pyr3s"),
                           **{{k: x for k, x in defaults(idnt).items() if k not in ("model_key", "params_initial")}})
        elif op == "fit:params_initial":
            P = params(); P["E"].value = v["E"]
            idnt.fit_model(params_initial=P, **{{k: x for k, x in defaults(idnt).items() if k != "params_initial"}})
        elif op == "fit:params_initial-bound":
            P = params(); P["E"].set(min=min(v["E"], 2999.0))
            idnt.fit_model(params_initial=P, **{{k: x for k, x in defaults(idnt).items() if k != "params_initial"}})
        elif op == "fit:params_initial-vary":
            P = params(); P["baseline"].vary = True
            idnt.fit_model(params_initial=P, **{{k: x for k, x in defaults(idnt).items() if k != "params_initial"}})
        elif op == "fit:method": idnt.fit_model(method="nelder", **defaults(idnt))
        elif op == "fit:preprocessing-B2":
            st, o = copy.deepcopy(PIPELINES["B2"]); idnt.fit_model(preprocessing=st, preprocessing_options=o, **{{k: x for k, x in defaults(idnt).items() if not k.startswith("preprocessing")}})
        elif op == "fit:preprocessing_options-only":
            o = copy.deepcopy(PIPELINES["B2"][1]); idnt.fit_model(preprocessing_options=o, **{{k: x for k, x in defaults(idnt).items() if not k.startswith("preprocessing")}})
        elif op == "fit:unknown-key": idnt.fit_model(no_such_setting=1)
        elif op == "fit:unknown-model": idnt.fit_model(model_key="no_such_model")
        elif op == "set:weight_cp": idnt.fit_properties["weight_cp"] = v["w"]
        elif op == "set:range_x": idnt.fit_properties["range_x"] = [v["a"], v["b"]]
        elif op == "set:unknown-key": idnt.fit_properties["no_such_setting"] = 1
        elif op == "rate": idnt.rate_quality(regressor="none")
        elif op == "emodulus-mindelta": idnt.compute_emodulus_mindelta()
    except (nfit.FitKeyError, nfit.FitDataError, KeyError, ValueError) as e:
        return e
def vis(i):
    fp = i.fit_properties
    d = {{"hash": fp.get("hash"), "chi": fp.get("chi_sqr"),
         "pf": None if "params_fitted" not in fp else [p.__getstate__()[:7] for p in fp["params_fitted"].values()]}}
    for c in ("fit", "fit residuals", "fit range"):
        d[c] = None if c not in i else np.array(i[c], copy=True)
    return d
def eq(a, b):
    for k in a:
        u, v = a[k], b[k]
        if u is None or v is None:
            if not (u is None and v is None): return False
        elif isinstance(u, np.ndarray):
            if not np.allclose(u.astype(float), v.astype(float), rtol=1e-6, atol=0, equal_nan=True): return False
        elif k == "pf":
            for s1, s2 in zip(u, v):
                if s1[0] != s2[0] or s1[2:] != s2[2:] or abs(s1[1] - s2[1]) > 1e-6 * max(abs(s1[1]), abs(s2[1]), 1e-300): return False
        elif k == "chi":
            if abs(u - v) > 1e-6 * max(abs(u), abs(v), 1e-300): return False
        elif u != v: return False
    return True
a = curve()
outs = [do(a, op, v) for op, v in zip(hist, vals)]
print([None if o is None else type(o).__name__ for o in outs])
fp = a.fit_properties
settings = {{k: copy.deepcopy(fp[k]) for k in nfit.FP_DEFAULT if k in fp}}
b = curve()
bad = []
if "preprocessing" in fp:
    if list(fp["preprocessing"]) != list(a.preprocessing or []) or fp.get("preprocessing_options") != a.preprocessing_options:
        bad.append("stored pipeline %r differs from the remembered one %r" % ((fp["preprocessing"], fp.get("preprocessing_options")), (a.preprocessing, a.preprocessing_options)))
    b.apply_preprocessing(copy.deepcopy(fp["preprocessing"]), options=copy.deepcopy(fp.get("preprocessing_options")))
elif a.preprocessing:
    b.apply_preprocessing(copy.deepcopy(a.preprocessing), options=copy.deepcopy(a.preprocessing_options))
if "optimal_fit_E_array" in fp:
    b2 = curve()
    if "preprocessing" in fp:
        b2.apply_preprocessing(copy.deepcopy(fp["preprocessing"]), options=copy.deepcopy(fp.get("preprocessing_options")))
    for k in sorted(settings):
        if k not in ("preprocessing", "preprocessing_options"): b2.fit_properties[k] = copy.deepcopy(settings[k])
    e2, d2 = b2.compute_emodulus_mindelta()
    e1, d1 = fp["optimal_fit_E_array"], fp["optimal_fit_delta_array"]
    if len(e1) != len(e2) or not np.allclose(e1, e2, rtol=1e-6, atol=0, equal_nan=True) or not np.allclose(d1, d2, rtol=1e-9, atol=0, equal_nan=True):
        bad.append("stored E(depth) scan is not the scan of the stored settings")
FIT = ("fit", "fit residuals", "fit range")
for c in [c for c in b.columns if c not in FIT]:
    if not np.array_equal(a[c], b[c], equal_nan=True): bad.append("data column " + c)
has = "hash" in fp
if not has and any(k in fp for k in ("params_fitted", "chi_sqr", "xmin", "xmax")):
    bad.append("result keys without hash")
can = "model_key" in settings and settings.get("params_initial") is not None and "compute_tip_position" in (a.preprocessing or [])
if can:
    b.fit_model(**{{k: v for k, v in settings.items() if k not in ("preprocessing", "preprocessing_options")}})
    if has and not eq(vis(a), vis(b)): bad.append("visible results differ from oracle")
    a.fit_model()
    if not eq(vis(a), vis(b)): bad.append("results after refit differ from oracle")
    n1 = runs[0]; before = vis(a); a.fit_model()
    if runs[0] != n1: bad.append("repeat ran the optimiser")
    if not eq(before, vis(a)): bad.append("repeat changed results")
print({ob["name"]!r}, bad)
if bad:
    print("REPRODUCED"); sys.exit(1)
sys.exit(0)
'''


def precheck(tier, seed):
    import random, subprocess, tempfile, os
    rnd = random.Random(seed)
    k = 2 if tier == "quick" else 3
    n = 6 if tier == "quick" else 24
    ok = 0
    for _ in range(n):
        hist = [rnd.randrange(len(OPS)) for _ in range(k)]
        script = replay({"args": {"hist": hist}}, {"name": "trace-validation"}, {})
        fd, path = tempfile.mkstemp(suffix=".py")
        with os.fdopen(fd, "w") as fh:
            fh.write(script)
        try:
            p = subprocess.run(["/venv/bin/python", path], capture_output=True, text=True, timeout=300, cwd="/repo")
        finally:
            os.unlink(path)
        if p.returncode != 0:
            raise AssertionError(f"history {[OPS[i] for i in hist]} on the real code: " + (p.stdout + p.stderr)[-600:])
        ok += 1
    return {"traces_validated": ok, "what": "random explored histories re-executed on real nanite (real steps, real lmfit)"}
