"""C15 - training sets load clean, aligned, and survive export."""
import itertools
import types
from fractions import Fraction as Fr

from symx import core, symnp, symlmfit
from symx.symnp2d import Sym2D
from symx.core import (real, assume, prove, witness, check_assumptions, same, all_of, any_of,
                       is_nan, is_inf, sym_ite, sym_abs)

from harness import common, c20

ID = "C15"
LEVEL = "other"
LAST_WORLD = None
EXPLANATION = (
    "Bounded symbolic verification of the real IndentationRater.load_training_set, "
    "compute_sample_weight and RateManager.export_training_set/get_rates/"
    "_get_samples. np.loadtxt is a stub that returns, per requested file, a column "
    "whose cells are NaN, +inf, -inf or a solver real - every pattern of cell kinds "
    "for M x F in {3x1, 2x2} and every pattern of zero / non-zero responses is "
    "enumerated, the finite values and responses are solver variables - for all 8 "
    "flag combinations. z3 compares the result with an independently written "
    "row-wise specification of the documented cleaning (imputation of zero-rated "
    "NaNs by the mean over the other zero-rated non-NaN entries, NaN-row removal "
    "together with the response, infinities to +-2*max|finite| per column, sorted "
    "feature columns, nothing else altered) and shows the result free of NaN/inf "
    "when all flags are on. Sample weights (M<=4, symbolic integer ratings): "
    "non-negative, sum 1, equal total per present class, NotImplementedError for "
    "non-integers. Export: with feature functions as distinct symbols the column "
    "written to train_<name>.txt is feature <name> of curve j at row j and the "
    "response file holds the user ratings in container order.")
ASSUMPTIONS = [
    "np.loadtxt / np.savetxt are stubs: the '%.2e' text rendering and its parsing (three significant digits) are C-library formatting and outside the claim",
    "rating containers are read through a stub of rate.io.load (container I/O is C16's subject)",
    "ratings are integers 0..10 (the documented rating classes)",
    "matrix sizes 3x1 and 2x2 (all cell-kind patterns); 3 (thorough 4) ratings for the weights, every class pattern 0..10",
]
BUDGET_S = {"quick": 900, "thorough": 2400}
QUERY_TIMEOUT_MS = {"quick": 30000, "thorough": 60000}
KINDS = ["v", "nan", "+inf", "-inf"]


def bounds(tier):
    return {"matrices": ["3 rows x 1 feature", "2 rows x 2 features"] + ([] if tier == "quick" else ["3 rows x 2 features (kinds v/nan/+inf)"]),
            "cell kinds": KINDS, "response patterns": "each rating zero or a non-zero solver value",
            "flags": "all 8 combinations of replace_inf/impute_zero_rated_nan/remove_nan",
            "outside": "text formatting/parsing; larger matrices"}


def tasks(tier):
    ts = []
    for flags in itertools.product([True, False], repeat=3):
        for (m, f) in ((3, 1), (2, 2)):
            for first in (KINDS if (m, f) == (2, 2) else [None]):
                ts.append({"name": f"load:{m}x{f}:inf={flags[0]}:impute={flags[1]}:rmnan={flags[2]}"
                                   + (f":first={first}" if first else ""), "fn": "t_load", "max_decisions": 100000,
                           "args": {"m": m, "f": f, "flags": list(flags), "kinds": KINDS, "first": first}})
    if tier == "thorough":
        for first in ["v", "nan", "+inf"]:
            ts.append({"name": f"load:3x2:all-flags:first={first}", "fn": "t_load", "max_decisions": 100000,
                       "args": {"m": 3, "f": 2, "flags": [True, True, True], "kinds": ["v", "nan", "+inf"],
                                "first": first}})
    ts.append({"name": "names:subset-order", "fn": "t_names", "args": {}})
    ts.append({"name": "weights", "fn": "t_weights", "args": {"m": 3 if tier == "quick" else 4}, "max_paths": 20000, "max_decisions": 5000,
               "witnesses": ["weights"]})
    ts.append({"name": "weights:non-integer", "fn": "t_weights_nonint", "args": {}})
    ts.append({"name": "export", "fn": "t_export", "args": {"n": 3}, "witnesses": ["exported"]})
    return ts


def _world():
    global LAST_WORLD
    w, afm = c20._world()
    w.load("nanite.rate.rater")
    LAST_WORLD = w
    return w


def _cell(kind, name):
    if kind == "v":
        return real(name)
    return {"nan": float("nan"), "+inf": float("inf"), "-inf": float("-inf")}[kind]


def _spec(cells, resp, zero, flags):
    """Row-wise specification.  cells[r][c], resp[r]; zero[r] concrete bool."""
    replace_inf, impute, remove_nan = flags
    m, f = len(cells), len(cells[0])
    cur = [list(row) for row in cells]
    if impute:
        for c in range(f):
            ref = [cur[r][c] for r in range(m) if zero[r] and not is_nan(cur[r][c])]
            tgt = [r for r in range(m) if zero[r] and is_nan(cur[r][c])]
            if ref and tgt:
                tot = 0
                for v in ref:
                    tot = symnp._add(tot, v)
                mean = symnp._div(tot, len(ref))
                for r in tgt:
                    cur[r][c] = mean
    keep = list(range(m))
    if remove_nan:
        keep = [r for r in range(m) if not any(is_nan(v) for v in cur[r])]
    rows = [cur[r] for r in keep]
    if replace_inf:
        for c in range(f):
            col = [row[c] for row in rows]
            if any(is_inf(v) for v in col):
                fin = [sym_abs(v) for v in col if not is_inf(v) and not is_nan(v)]
                if not fin:
                    return None, None, "no finite value to scale infinities with"
                ext = fin[0]
                for v in fin[1:]:
                    ext = sym_ite(v > ext, v, ext)
                for row in rows:
                    if is_inf(row[c]):
                        row[c] = 2 * ext if row[c] > 0 else -2 * ext
    return rows, [resp[r] for r in keep], None


def t_load(m, f, flags, kinds, first=None):
    w = _world()
    rmod = w.modules["nanite.rate.rater"]
    IR = rmod.IndentationRater
    names = sorted(IR.get_feature_names(which_type=["continuous"]))[:f]
    # pass the names in reverse order: columns must follow the sorted names
    req = list(reversed(names))
    done = 0
    for kp in itertools.product(kinds, repeat=m * f):
        if first is not None and kp[0] != first:
            continue
        for zp in itertools.product([True, False], repeat=m):
            tag = f"{done}"
            cells = [[_cell(kp[r * f + c], f"v{tag}_{r}_{c}") for c in range(f)] for r in range(m)]
            resp = []
            for r in range(m):
                if zp[r]:
                    resp.append(0)
                else:
                    y = real(f"y{tag}_{r}")
                    assume(y != 0)
                    resp.append(y)
            files = {}
            for c, nm in enumerate(names):
                files[f"train_{nm}.txt"] = [cells[r][c] for r in range(m)]
            files["train_response.txt"] = list(resp)

            def loadtxt(path, dtype=float, ndmin=0):
                import os
                col = files[os.path.basename(str(path))]
                if ndmin == 2:
                    return Sym2D.column(list(col))
                return symnp.SymArr(list(col))
            symnp.loadtxt = loadtxt
            exp_rows, exp_resp, problem = _spec(cells, resp, zp, flags)
            try:
                X, y, got_names = IR.load_training_set(path="/ts", names=req, replace_inf=flags[0],
                                                       impute_zero_rated_nan=flags[1], remove_nan=flags[2],
                                                       ret_names=True)
            except Exception as e:   # noqa: BLE001
                core.violated("no-undocumented-exception", info={"kinds": kp, "zero-rated": zp, "flags": flags,
                                                                 "exception": repr(e)[:160], "spec": problem})
                done += 1
                continue
            done += 1
            if problem is not None:
                core.note("accepted although spec undefined: " + problem)
                continue
            rows = [r.elems for r in X.rows] if isinstance(X, Sym2D) else []
            info = {"kinds": kp, "zero-rated": zp}
            prove("columns-follow-sorted-names", list(got_names) == names, info=info)
            prove("rows-kept-in-order-with-own-response", len(rows) == len(exp_rows)
                  and len(symnp.asarray(y)._idx) == len(exp_resp)
                  and all_of([same(u, v) for u, v in zip(symnp.asarray(y).elems, exp_resp)]), info=info)
            if len(rows) == len(exp_rows):
                prove("entries-as-specified", all_of([same(u, v) for ru, rv in zip(rows, exp_rows)
                                                      for u, v in zip(ru, rv)]), info=info)
            if all(flags):
                prove("no-nan-or-inf-left", not any(is_nan(v) or is_inf(v) for r in rows for v in r), info=info)
    witness("load")
    return {"patterns": done}


def t_names():
    w = _world()
    IR = w.modules["nanite.rate.rater"].IndentationRater
    allc = sorted(IR.get_feature_names(which_type=["continuous"]))
    seen = []

    def loadtxt(path, dtype=float, ndmin=0):
        import os
        seen.append(os.path.basename(str(path)))
        col = [Fr(len(seen)), Fr(2 * len(seen))]
        return Sym2D.column(col) if ndmin == 2 else symnp.SymArr([1, 2])
    symnp.loadtxt = loadtxt
    for sub in (allc[:3], [allc[4], allc[1]], allc):
        seen.clear()
        X, y, nm = IR.load_training_set(path="/ts", names=list(sub), ret_names=True)
        prove("sorted-requested-names", list(nm) == sorted(sub))
        prove("one-file-per-name-in-column-order", seen[:-1] == [f"train_{n}.txt" for n in sorted(sub)]
              and seen[-1] == "train_response.txt", info={"files": list(seen)})
        prove("column-j-comes-from-file-j", all(same(X.rows[0].elems[j], j + 1) for j in range(len(sub))))
    try:
        IR.load_training_set(path="/ts", names=["feat_con_no_such_feature"])
        prove("unknown-feature-name-rejected", False)
    except ValueError:
        prove("unknown-feature-name-rejected", True)
    return {}


def t_weights(m):
    w = _world()
    IR = w.modules["nanite.rate.rater"].IndentationRater
    ys = []
    for i in range(m):
        y = core.integer(f"y{i}")
        assume(y >= 0)
        assume(y <= 10)
        ys.append(y)
    # concrete ratings per path (the class structure is what matters)
    check_assumptions()
    yc = [core.concretize(y, 0, 10, "rating") for y in ys]
    wts = IR.compute_sample_weight(None, symnp.SymArr(yc, dtype=symnp.float64))
    witness("weights")
    ws = wts.elems
    prove("non-negative", all_of([v >= 0 for v in ws]))
    tot = 0
    for v in ws:
        tot = tot + v
    prove("sum-to-one", same(tot, 1))
    classes = sorted(set(yc))
    sums = []
    for c in classes:
        s = 0
        for v, yy in zip(ws, yc):
            if yy == c:
                s = s + v
        sums.append(s)
    prove("equal-total-weight-per-class", all_of([same(s, sums[0]) for s in sums]))
    return {"ratings": yc}


def t_weights_nonint():
    w = _world()
    IR = w.modules["nanite.rate.rater"].IndentationRater
    try:
        IR.compute_sample_weight(None, symnp.SymArr([Fr(1), Fr(5, 2)]))
        prove("non-integer-ratings-rejected", False)
    except NotImplementedError:
        prove("non-integer-ratings-rejected", True)
    return {}


def t_export(n):
    w = _world()
    io = w.load("nanite.rate.io")
    rmod = w.modules["nanite.rate.rater"]
    IR = rmod.IndentationRater
    names = sorted(IR.get_feature_names())

    class DS:
        def __init__(self, j):
            self.j = j
            self.fit_properties = {"success": True}
    ratings = [real(f"user_rating{j}") for j in range(n)]
    records = [{"data_set": DS(j), "rating": ratings[j], "name": "u", "comment": ""} for j in range(n)]
    io.load = lambda path, meta_only=False, verbose=0: list(records)
    feat = {}

    def compute_features(idnt, which_type="all", names=None, ret_names=False):
        nn = sorted(IR.get_feature_names(which_type=which_type, names=names))
        vals = []
        for nm in nn:
            feat.setdefault((idnt.j, nm), real(f"feat_{idnt.j}_{nm}"))
            vals.append(feat[(idnt.j, nm)])
        arr = symnp.SymArr(vals)
        return (arr, nn) if ret_names else arr
    IR.compute_features = staticmethod(compute_features)
    written = {}

    def savetxt(path, arr, fmt=None):
        written[str(path).split("/")[-1]] = (symnp.asarray(arr).elems, fmt)
    symnp.savetxt = savetxt
    _arr = symnp.array

    def array2(x, dtype=None, copy=True, ndmin=0):
        if isinstance(x, list) and x and all(isinstance(r, symnp.SymArr) for r in x):
            return Sym2D(list(x))
        return _arr(x, dtype=dtype, copy=copy, ndmin=ndmin)
    symnp.array = array2
    import pathlib
    real_mkdir = pathlib.Path.mkdir
    pathlib.Path.mkdir = lambda self, *a, **k: None
    try:
        rm = io.RateManager("/containers")
        rm.export_training_set("/out/ts_x")
    finally:
        pathlib.Path.mkdir = real_mkdir
        symnp.array = _arr
    witness("exported")
    prove("one-file-per-feature-plus-response", set(written) == {f"train_{nm}.txt" for nm in names} | {"train_response.txt"})
    for nm in names:
        col, fmt = written.get(f"train_{nm}.txt", ([], None))
        prove(f"column-is-that-feature-in-container-order[{nm}]",
              len(col) == n and all(col[j] is feat[(j, nm)] for j in range(len(col))))
        prove(f"three-significant-digits-format[{nm}]", fmt == "%.2e")
    resp, fmt = written.get("train_response.txt", ([], None))
    prove("responses-are-user-ratings-in-container-order", len(resp) == n and all(u is v for u, v in zip(resp, ratings)))
    return {"files": len(written)}


def classify(task, ob):
    if task["fn"] == "t_load" and ob["name"] == "no-undocumented-exception":
        info = ob.get("info") or {}
        if info.get("spec"):
            return "load:" + info["spec"]
    return f"{task['fn']}:{ob['name'].split('[')[0]}"


def replay(task, ob, model):
    a = task["args"]
    info = ob.get("info") or {}
    if task["fn"] == "t_load":
        kp, zp = info.get("kinds"), info.get("zero-rated")
        m, f = a["m"], a["f"]
        return common.REPLAY_HEAD + f'''
import tempfile, pathlib, shutil
from nanite.rate.rater import IndentationRater as IR
kp = {list(kp)!r}; zp = {list(zp)!r}; m, f = {m}, {f}; flags = {a["flags"]!r}
names = sorted(IR.get_feature_names(which_type=["continuous"]))[:f]
val = {{"v": None, "nan": np.nan, "+inf": np.inf, "-inf": -np.inf}}
rng = np.random.default_rng(3)
cells = np.array([[val[kp[r * f + c]] if kp[r * f + c] != "v" else round(float(rng.uniform(-3, 3)), 2) for c in range(f)] for r in range(m)], dtype=float)
resp = np.array([0.0 if z else float(1 + r) for r, z in enumerate(zp)])
d = pathlib.Path(tempfile.mkdtemp(prefix="c15_"))
for c, nm in enumerate(names):
    np.savetxt(d / f"train_{{nm}}.txt", cells[:, c], fmt="%.2e")
np.savetxt(d / "train_response.txt", resp, fmt="%.2e")
bad = []
try:
    X, y, nn = IR.load_training_set(path=d, names=list(reversed(names)), replace_inf=flags[0],
                                    impute_zero_rated_nan=flags[1], remove_nan=flags[2], ret_names=True)
    cur = cells.copy()
    if flags[1]:
        for c in range(f):
            ref = [cur[r, c] for r in range(m) if zp[r] and not np.isnan(cur[r, c])]
            tgt = [r for r in range(m) if zp[r] and np.isnan(cur[r, c])]
            if ref and tgt:
                for r in tgt: cur[r, c] = np.mean(ref)
    keep = [r for r in range(m) if not (flags[2] and np.any(np.isnan(cur[r])))]
    cur = cur[keep]; er = resp[keep]
    if flags[0]:
        for c in range(f):
            col = cur[:, c]
            if np.any(np.isinf(col)):
                fin = np.abs(col[np.isfinite(col)])
                ext = fin.max()
                col[np.isposinf(col)] = 2 * ext; col[np.isneginf(col)] = -2 * ext
    if list(nn) != names: bad.append("names")
    if X.shape != cur.shape or not np.allclose(X, cur, equal_nan=True): bad.append("entries %r vs %r" % (X, cur))
    if not np.array_equal(y, er): bad.append("responses")
    if all(flags) and not np.all(np.isfinite(X)): bad.append("nan/inf left")
except Exception as e:
    bad.append("raised %r" % (e,))
shutil.rmtree(d, ignore_errors=True)
print({ob["name"]!r}, kp, zp, bad)
if bad:
    print("REPRODUCED"); sys.exit(1)
sys.exit(0)
'''
    if task["fn"] == "t_weights":
        ys = [int(model.get(f"y{i}", 0)) for i in range(a["m"])]
        return common.REPLAY_HEAD + f'''
from nanite.rate.rater import IndentationRater as IR
y = np.array({ys!r}, dtype=float)
w = IR.compute_sample_weight(None, y)
bad = []
if np.any(w < 0) or abs(w.sum() - 1) > 1e-12: bad.append("weights %r" % (w,))
tot = [w[y == c].sum() for c in sorted(set(y))]
if not np.allclose(tot, tot[0]): bad.append("class totals %r" % (tot,))
if bad:
    print("REPRODUCED", bad); sys.exit(1)
sys.exit(0)
'''
    return None
