"""C07 - each preprocessing step does what its description says."""
import warnings
from fractions import Fraction as Fr

from symx import core, symnp, symlmfit
from symx.core import (real, assume, prove, witness, check_assumptions, same, all_of, any_of,
                       implies, is_nan, sym_ite)

from harness import common

ID = "C07"
LEVEL = "other"
LAST_WORLD = None
EXPLANATION = (
    "Bounded symbolic verification of the six real preproc_* step functions (with "
    "find_turning_point, poc.compute_poc / poc_deviation_from_baseline / "
    "poc_frechet_direct_path and smooth.smooth_axis_monotone/smooth_axis) on a "
    "real Indentation whose columns are solver variables. Per step z3 shows: "
    "tip-sample separation tip=height+force/k and nothing else changes; force- and "
    "tip-offset change their column by one constant with mean pre-contact force 0 "
    "/ tip position 0 at the estimated index; slope correction (3 regions x 2 "
    "strategies, arbitrary fitted line) subtracts m*abscissa+const inside the "
    "region, exactly 0 outside, 0 at the region boundary, force only; segment "
    "discovery yields 0^i 1^(N-i) with one switch at the turning point (or a "
    "warning and no change); height smoothing of weakly monotonic segment columns "
    "yields strictly monotonic columns of the same length; every step keeps the "
    "number of points, the columns it does not own and the raw data.")
ASSUMPTIONS = [
    "lmfit.models.LinearModel is a contract stub (arbitrary slope and intercept, best_fit=m*x+c)",
    "contact-point methods that call Nelder-Mead (3 of 6) are outside; deviation_from_baseline and frechet_direct_path are encoded",
    "height smoothing: precondition = each segment's height-like column weakly monotonic with at most one tie (ties are what the tie-breaking loop is for); median_filter is the exact order-statistic shim; N<=4 samples per segment (window 15 on realistic lengths did not fit the per-query cap)",
    "real arithmetic; spring constant > 0",
]
BUDGET_S = {"quick": 900, "thorough": 3400}
QUERY_TIMEOUT_MS = {"quick": 60000, "thorough": 240000}


def bounds(tier):
    q = tier == "quick"
    return {"tip position": "N=4", "force offset": "N=10" if q else "N in {10, 12}",
            "tip offset": "deviation_from_baseline N=10, frechet_direct_path N=5",
            "slope": "N=6, regions baseline/all/approach (turning-point search stubbed as an arbitrary index for approach), strategies shift and drift",
            "segment discovery": "N=10 (estimator needs a 10% baseline) with the turning-point search as an arbitrary-index stub; find_turning_point itself at N=4 (N=5 exceeded the per-query cap on some paths)",
            "smoothing": "segments 3+3 (thorough 4+3), columns height (measured) and tip position",
            "outside": "median window 15 on realistic lengths; optimiser-based contact-point methods; non-monotonic noisy heights"}


def tasks(tier):
    q = tier == "quick"
    ts = [{"name": "tip-position", "fn": "t_tip", "args": {"innate": False}, "witnesses": ["done"]},
          {"name": "tip-position:innate", "fn": "t_tip", "args": {"innate": True}, "witnesses": ["done"]},
          {"name": "tip-position:missing-spring-constant", "fn": "t_tip", "args": {"innate": False, "no_k": True}}]
    for n in ([10] if q else [10, 12]):
        ts.append({"name": f"force-offset:N{n}", "fn": "t_force_offset", "args": {"n": n}, "max_paths": 4000,
                   "witnesses": ["contact-found"]})
    # an estimated contact index of 0 (nothing in front of it) only remains for a
    # single sample, since the estimator's fallback is the middle of the data
    ts.append({"name": "force-offset:N1", "fn": "t_force_offset", "args": {"n": 1}, "max_paths": 100,
               "witnesses": ["no-contact"]})
    ts.append({"name": "tip-offset:deviation_from_baseline:N10", "fn": "t_tip_offset",
               "args": {"method": "deviation_from_baseline", "n": 10}, "max_paths": 4000, "witnesses": ["done"]})
    ts.append({"name": "tip-offset:frechet_direct_path:N5", "fn": "t_tip_offset",
               "args": {"method": "frechet_direct_path", "n": 5}, "max_paths": 4000, "witnesses": ["done"]})
    for region in ("baseline", "all", "approach"):
        for strategy in ("shift", "drift"):
            ts.append({"name": f"slope:{region}:{strategy}", "fn": "t_slope",
                       "args": {"region": region, "strategy": strategy, "n": 6},
                       "max_paths": 6000, "witnesses": ["done"]})
    ts.append({"name": "slope:invalid-options", "fn": "t_slope_invalid", "args": {}})
    ts.append({"name": "segment-discovery:N10", "fn": "t_split", "args": {"n": 10}, "max_paths": 6000,
               "witnesses": ["split", "cannot-split"]})
    for n, idp in ((4, 2),) if q else ((4, 2), (4, 3), (4, 1)):
        ts.append({"name": f"turning-point:N{n}:idp{idp}", "fn": "t_turning", "args": {"n": n, "idp": idp},
                   "max_paths": 6000, "witnesses": ["done"]})
    ts.append({"name": "smooth:3+3", "fn": "t_smooth", "args": {"na": 3, "nr": 3}, "max_paths": 8000,
               "witnesses": ["done"]})
    if not q:
        ts.append({"name": "smooth:4+3", "fn": "t_smooth", "args": {"na": 4, "nr": 3}, "max_paths": 20000,
                   "witnesses": ["done"]})
    return ts


def _world():
    global LAST_WORLD
    w = common.indent_world()
    LAST_WORLD = w
    symlmfit.reset_stub()
    return w, w.modules["nanite.preproc"]


PREFIX = {"height (measured)": "h", "force": "f", "time": "tm", "tip position": "tp"}


def _cols(n, names=("height (measured)", "force", "time", "segment", "tip position"), seg=None):
    cols = {}
    sym = {}
    for nm in names:
        if nm == "segment":
            cols[nm] = symnp.SymArr(seg or [0] * n, dtype=symnp.uint8)
        else:
            vals = [real(f"{PREFIX[nm]}{i}") for i in range(n)]
            sym[nm] = vals
            cols[nm] = symnp.SymArr(list(vals))
    return cols, sym


def _snapshot(idnt):
    return {c: list(idnt[c].elems) for c in idnt.columns}, {c: list(idnt._raw_data[c].elems) for c in idnt._raw_data}


def _untouched(idnt, snap, own):
    cols0, raw0 = snap
    ok = all(len(raw0[c]) == len(idnt._raw_data[c].elems) and all(u is v for u, v in zip(raw0[c], idnt._raw_data[c].elems))
             for c in raw0)
    prove("raw-data-untouched", ok)
    prove("no-column-lost", set(cols0) <= set(idnt.columns))
    for c in cols0:
        if c in own:
            continue
        now = idnt[c].elems
        prove(f"unowned-column-unchanged[{c}]", len(now) == len(cols0[c])
              and all_of([same(u, v) for u, v in zip(cols0[c], now)]))
    for c in own:
        if c in idnt:
            prove(f"same-number-of-points[{c}]", len(idnt[c].elems) == len(next(iter(cols0.values()))))


def t_tip(innate, no_k=False):
    w, pp = _world()
    n = 4
    names = ("height (measured)", "force", "segment") + (("tip position",) if innate else ())
    cols, sym = _cols(n, names)
    k = real("k")
    assume(k > 0)
    check_assumptions()
    idnt = common.make_indentation(w, cols, spring_constant=None if no_k else k)
    snap = _snapshot(idnt)
    try:
        pp.preproc_compute_tip_position(idnt)
    except ValueError as e:
        prove("refused-only-when-input-missing", no_k, info={"e": repr(e)})
        return {"refused": True}
    prove("accepted-when-inputs-present", not no_k or innate)
    witness("done")
    tip = idnt["tip position"].elems
    if innate:
        prove("innate-tip-position-left-alone", all(u is v for u, v in zip(tip, sym["tip position"])))
    else:
        for i in range(n):
            prove(f"tip=height+force/k[{i}]", same(tip[i], sym["height (measured)"][i] + sym["force"][i] / k))
    _untouched(idnt, snap, own=["tip position"])
    return {"innate": innate}


def t_force_offset(n):
    w, pp = _world()
    cols, sym = _cols(n, ("height (measured)", "force", "segment"))
    check_assumptions()
    idnt = common.make_indentation(w, cols, spring_constant=Fr(1, 10))
    snap = _snapshot(idnt)
    f = sym["force"]
    pp.preproc_correct_force_offset(idnt)
    out = idnt["force"].elems
    idp = w.modules["nanite.poc"].compute_poc(symnp.SymArr(list(f)), method="deviation_from_baseline")
    if isinstance(idp, core.SymInt):
        idp = core.concretize(idp, 0, n, "contact index")
    c = f[0] - out[0]
    for i in range(n):
        prove(f"changed-by-one-constant[{i}]", same(f[i] - out[i], c))
    if idp:
        witness("contact-found")
        tot = 0
        for i in range(idp):
            tot = tot + out[i]
        prove("mean-pre-contact-force-is-zero", same(tot, 0), info={"idp": idp})
    else:
        witness("no-contact")
        prove("first-sample-zero-when-no-baseline", same(out[0], 0))
    _untouched(idnt, snap, own=["force"])
    return {"idp": idp}


def t_tip_offset(method, n):
    w, pp = _world()
    cols, sym = _cols(n, ("height (measured)", "force", "segment", "tip position"))
    check_assumptions()
    idnt = common.make_indentation(w, cols, spring_constant=Fr(1, 10))
    snap = _snapshot(idnt)
    t = sym["tip position"]
    pp.preproc_correct_tip_offset(idnt, method=method)
    witness("done")
    out = idnt["tip position"].elems
    cpid = w.modules["nanite.poc"].compute_poc(symnp.SymArr(list(sym["force"])), method=method)
    if isinstance(cpid, core.SymInt):
        cpid = core.concretize(cpid, 0, n, "contact index")
    c = t[0] - out[0]
    for i in range(n):
        prove(f"changed-by-one-constant[{i}]", same(t[i] - out[i], c))
    prove("zero-at-estimated-contact-index", same(out[cpid], 0), info={"cpid": cpid})
    _untouched(idnt, snap, own=["tip position"])
    return {"cpid": cpid}


def t_slope(region, strategy, n):
    w, pp = _world()
    cols, sym = _cols(n, ("force", "time", "segment", "tip position"))
    check_assumptions()
    idnt = common.make_indentation(w, cols, spring_constant=Fr(1, 10))
    snap = _snapshot(idnt)
    f, t, x = sym["force"], sym["time"], sym["tip position"]
    tp_calls = []
    if region == "approach":
        # the turning-point search is a contract stub here (arbitrary index);
        # find_turning_point itself is decided by the turning-point tasks
        kturn = core.integer("idturn")
        assume(kturn >= 0)
        assume(kturn <= n - 1)

        def find_turning_point(tip_position, force, contact_point_index):
            tp_calls.append((tip_position, force, contact_point_index))
            return kturn
        pp.find_turning_point = find_turning_point
        check_assumptions()
    pp.preproc_correct_force_slope(idnt, region=region, strategy=strategy)
    witness("done")
    out = idnt["force"].elems
    ab = x if strategy == "shift" else t
    # the stub's line
    ins = core.cur().inputs
    m = core.SymReal(ins[[k for k in ins if k.startswith("lin_slope")][0]])
    corr = [f[i] - out[i] for i in range(n)]
    # which samples were corrected is decided by the code's own indices; the
    # specification constrains the *shape* of the correction
    changed = [core.decide(corr[i] != 0) if core.is_sym(corr[i]) else corr[i] != 0 for i in range(n)]
    # idp as specified: max(2, argmin |tip|)
    amin = symnp.argmin(symnp.abs(symnp.SymArr(list(x))))
    if isinstance(amin, core.SymInt):
        amin = core.concretize(amin, 0, n - 1, "argmin")
    idp = max(2, amin)
    if region == "baseline":
        hi = idp
        zero_at = idp - 1
    elif region == "all":
        hi = n
        zero_at = idp
    else:
        kk = core.concretize(kturn, 0, n - 1, "idturn")
        hi = max(2, kk)
        zero_at = hi - 1
        prove("turning-point-searched-with-contact-index", len(tp_calls) == 1 and tp_calls[0][2] == idp
              and all(u is v for u, v in zip(tp_calls[0][0].elems, x)))
    for i in range(n):
        if i < hi:
            prove(f"linear-correction-inside-region[{i}]",
                  same(corr[i], m * ab[i] - m * ab[zero_at]), info={"idp": idp})
        else:
            prove(f"untouched-outside-region[{i}]", same(corr[i], 0))
    prove("no-jump-at-region-boundary", same(corr[zero_at], 0))
    _untouched(idnt, snap, own=["force"])
    return {"region": region, "strategy": strategy, "idp": idp}


def t_slope_invalid():
    w, pp = _world()
    cols, sym = _cols(4, ("force", "time", "segment", "tip position"))
    idnt = common.make_indentation(w, cols, spring_constant=Fr(1, 10))
    snap = _snapshot(idnt)
    for kw in ({"region": "bogus"}, {"strategy": "bogus"}):
        try:
            pp.preproc_correct_force_slope(idnt, **kw)
            prove(f"invalid-option-rejected[{list(kw)[0]}]", False)
        except ValueError:
            prove(f"invalid-option-rejected[{list(kw)[0]}]", True)
        prove(f"rejected-call-changes-nothing[{list(kw)[0]}]",
              all_of([same(u, v) for u, v in zip(snap[0]["force"], idnt["force"].elems)]))
    return {}


def t_split(n):
    """Segment discovery with the turning-point search as a contract stub
    (arbitrary index); the search itself is decided by t_turning."""
    w, pp = _world()
    seg0 = [0] * (n // 2) + [1] * (n - n // 2)
    cols, sym = _cols(n, ("force", "segment", "tip position"), seg=seg0)
    calls = []
    k = core.integer("idturn")
    assume(k >= 0)
    assume(k <= n - 1)

    def find_turning_point(tip_position, force, contact_point_index):
        calls.append((tip_position, force, contact_point_index))
        return k
    pp.find_turning_point = find_turning_point
    check_assumptions()
    idnt = common.make_indentation(w, cols, spring_constant=Fr(1, 10))
    snap = _snapshot(idnt)
    with warnings.catch_warnings(record=True) as wl:
        warnings.simplefilter("always")
        pp.preproc_correct_split_approach_retract(idnt)
    warned = any(issubclass(x.category, pp.CannotSplitWarning) for x in wl)
    seg = idnt["segment"].elems
    idp = w.modules["nanite.poc"].poc_deviation_from_baseline(symnp.SymArr(list(sym["force"])))
    if isinstance(idp, core.SymInt):
        idp = core.concretize(idp, 0, n, "idp")
    if warned:
        witness("cannot-split")
        prove("segment-unchanged-on-warning", list(seg) == seg0)
        prove("warning-only-without-contact-estimate", is_nan(idp) or idp == 0, info={"idp": repr(idp)})
    else:
        witness("split")
        kk = core.concretize(k, 0, n - 1, "idturn")
        prove("switch-at-turning-point", list(seg) == [0] * kk + [1] * (n - kk), info={"idturn": kk})
        prove("turning-point-searched-on-the-curve-data", len(calls) == 1
              and all(u is v for u, v in zip(calls[0][0].elems, sym["tip position"]))
              and all(u is v for u, v in zip(calls[0][1].elems, sym["force"]))
              and calls[0][2] == idp, info={"idp": repr(idp)})
    _untouched(idnt, snap, own=["segment"])
    return {"warned": warned}


def t_turning(n, idp):
    """find_turning_point returns the sample farthest from the contact point
    in the normalised (tip position, force) plane (independent restatement)."""
    w, pp = _world()
    x = [real(f"x{i}") for i in range(n)]
    y = [real(f"y{i}") for i in range(n)]
    # a curve that actually indents: some tip position below the contact point
    # and some force above the baseline
    check_assumptions()
    try:
        got = pp.find_turning_point(symnp.SymArr(list(x)), symnp.SymArr(list(y)), idp)
    except ValueError as e:
        core.note(repr(e))
        return {"raised": repr(e)[:80]}
    if isinstance(got, core.SymInt):
        got = core.concretize(got, 0, n - 1, "turning point")
    witness("done")
    # specification
    xs = [xi - x[idp] for xi in x]
    xmin = xs[0]
    for v in xs[1:]:
        xmin = sym_ite(v < xmin, v, xmin)
    if core.decide(xmin != 0):
        xs = [core.sym_div(v, xmin) for v in xs]
    xs = [sym_ite(v < 0, 0, v) if not is_nan(v) else v for v in xs]
    base = 0
    for v in y[:idp]:
        base = base + v
    base = core.sym_div(base, idp)
    ys = [v - base for v in y]
    ymax = ys[0]
    for v in ys[1:]:
        ymax = sym_ite(v > ymax, v, ymax)
    ys = [core.sym_div(v, ymax) for v in ys]
    if any(is_nan(v) or core.is_inf(v) for v in ys + xs):
        core.note("degenerate normalisation (zero range): outside the well-formed domain")
        return {"degenerate": True}
    m = 0
    for v in ys[:idp]:
        m = m + v
    m = core.sym_div(m, idp)
    var = 0
    for v in ys[:idp]:
        var = var + (v - m) * (v - m)
    sd = core.sym_sqrt(core.sym_div(var, idp))
    ys = [sym_ite(v < sd, 0, v) for v in ys]
    d = [xs[i] * xs[i] + ys[i] * ys[i] for i in range(n)]
    for i in range(n):
        prove(f"farthest-point[{i}]", d[got] >= d[i], info={"returned": got})
    for i in range(got):
        prove(f"first-of-the-farthest[{i}]", d[got] > d[i], info={"returned": got})
    return {"turning point": got}


def t_smooth(na, nr):
    w, pp = _world()
    n = na + nr
    seg = [0] * na + [1] * nr
    cols, sym = _cols(n, ("height (measured)", "force", "segment", "tip position"), seg=seg)
    # precondition: weakly monotonic per segment (approach decreasing, retract
    # increasing), with at most one tie per segment
    for nm in ("height (measured)", "tip position"):
        v = sym[nm]
        ties = 0
        for i in range(na - 1):
            assume(v[i] >= v[i + 1])
            ties = ties + sym_ite(v[i] == v[i + 1], 1, 0)
        assume(ties <= 1)
        ties = 0
        for i in range(na, n - 1):
            assume(v[i] <= v[i + 1])
            ties = ties + sym_ite(v[i] == v[i + 1], 1, 0)
        assume(ties <= 1)
        assume(v[0] > v[na - 1])
        assume(v[na] < v[n - 1])
    check_assumptions()
    idnt = common.make_indentation(w, cols, spring_constant=Fr(1, 10))
    snap = _snapshot(idnt)
    with warnings.catch_warnings():
        warnings.simplefilter("ignore")
        try:
            pp.preproc_smooth_height(idnt)
        except ValueError as e:
            core.violated("smoothing-terminates", info={"e": repr(e)[:200]})
            return {"raised": repr(e)[:100]}
    witness("done")
    for nm in ("height (measured)", "tip position"):
        out = idnt[nm].elems
        prove(f"same-length[{nm}]", len(out) == n)
        for i in range(na - 1):
            prove(f"approach-strictly-monotonic[{nm}][{i}]", out[i] > out[i + 1])
        for i in range(na, n - 1):
            prove(f"retract-strictly-monotonic[{nm}][{i}]", out[i] < out[i + 1])
    _untouched(idnt, snap, own=["height (measured)", "tip position"])
    return {"na": na, "nr": nr}


def classify(task, ob):
    nm = ob["name"].split("[")[0]
    return f"{task['name'].split(':')[0]}:{nm}"


def replay(task, ob, model):
    a = task["args"]
    fn = task["fn"]
    g = lambda nm, d=0.0: float(model.get(nm, d))
    n = a.get("n", 4)
    if fn == "t_smooth":
        n = a["na"] + a["nr"]
    def col(prefix):
        return [g(f"{prefix}{i}") for i in range(n)]
    lin = {k.split("!")[0]: float(v) for k, v in model.items() if k.startswith("lin_")}
    return common.REPLAY_HEAD + f'''
import nanite, warnings, lmfit
import nanite.preproc as pp, nanite.poc as poc
fn = {fn!r}; a = {a!r}; n = {n}
h = np.array({col("h")!r}); f = np.array({col("f")!r}); tm = np.array({col("tm")!r})
lin = {lin!r}
'''+ '''
def mk(cols, seg=None, k=0.1):
    data = {c: v.copy() for c, v in cols.items()}
    data["segment"] = np.array(seg if seg is not None else [0] * n, dtype=np.uint8)
    md = {"path": "/s/c.jpk-force", "enum": 0, "point count": n, "imaging mode": "force-distance"}
    if k is not None: md["spring constant"] = k
    return nanite.Indentation(data=data, metadata=md)
bad = []
def tol(u, v):
    return np.allclose(u, v, rtol=1e-9, atol=1e-12 * max(1e-300, np.max(np.abs(u)), np.max(np.abs(v))), equal_nan=True)
''' + f'''
if fn == "t_tip":
    k = {g("k", 0.1)!r}
    i = mk({{"height (measured)": h, "force": f}}, k=k)
    pp.preproc_compute_tip_position(i)
    if not tol(i["tip position"], h + f / k): bad.append("tip != height + force/k")
elif fn == "t_force_offset":
    i = mk({{"height (measured)": h, "force": f}})
    pp.preproc_correct_force_offset(i)
    d = f - i["force"]; idp = poc.compute_poc(f.copy(), method="deviation_from_baseline")
    if not tol(d, d[0] * np.ones(n)): bad.append("force not changed by a constant")
    if idp and abs(np.mean(i["force"][:idp])) > 1e-9 * max(np.max(np.abs(f)), 1e-300): bad.append("mean pre-contact force not zero")
    if not idp and i["force"][0] != 0: bad.append("first sample not zero")
elif fn == "t_tip_offset":
    tp = np.array({col("tp")!r})
    i = mk({{"height (measured)": h, "force": f, "tip position": tp}})
    pp.preproc_correct_tip_offset(i, method=a["method"])
    d = tp - i["tip position"]; cp = poc.compute_poc(f.copy(), method=a["method"])
    if not tol(d, d[0] * np.ones(n)): bad.append("tip not changed by a constant")
    if abs(i["tip position"][cp]) > 1e-9 * max(np.max(np.abs(tp)), 1e-300): bad.append("tip position not zero at contact index")
elif fn == "t_slope":
    tp = np.array({col("tp")!r})
    class Out: pass
    class LM:
        def guess(self, d, x=None): return None
        def fit(self, d, pars, x=None):
            import lmfit as _lm
            o = Out(); o.params = _lm.Parameters()
            o.params.add("slope", value=lin.get("lin_slope", 1.0)); o.params.add("intercept", value=lin.get("lin_icpt", 0.0))
            o.best_values = {{"slope": o.params["slope"].value, "intercept": o.params["intercept"].value}}
            o.best_fit = o.params["slope"].value * x + o.params["intercept"].value; return o
        def eval(self, params, x=None): return params["slope"].value * x + params["intercept"].value
    pp.lmfit.models.LinearModel = LM
    i = mk({{"force": f, "time": tm, "tip position": tp}})
    pp.preproc_correct_force_slope(i, region=a["region"], strategy=a["strategy"])
    corr = f - i["force"]; ab = tp if a["strategy"] == "shift" else tm
    m = lin.get("lin_slope", 1.0)
    idp = max(2, int(np.argmin(np.abs(tp))))
    ok = False
    if a["region"] == "baseline":
        ok = tol(corr[:idp], m * ab[:idp] - m * ab[idp - 1]) and np.all(corr[idp:] == 0)
    elif a["region"] == "all":
        ok = tol(corr, m * ab - m * ab[idp])
    else:
        ok = any(tol(corr[:k], m * ab[:k] - m * ab[k - 1]) and np.all(corr[k:] == 0) for k in range(2, n + 1))
    if not ok: bad.append("slope correction shape: %r" % (corr,))
elif fn == "t_split":
    tp = np.array({col("tp")!r})
    seg0 = [0] * (n // 2) + [1] * (n - n // 2)
    i = mk({{"force": f, "tip position": tp}}, seg=seg0)
    kk = {int(float(model.get("idturn", -1)))}
    if kk >= 0:
        # the turning-point search is a contract stub in the harness (its own
        # task decides it): return the solver's index here as well
        pp.find_turning_point = lambda *aa, **kw: kk
    with warnings.catch_warnings(record=True) as wl:
        warnings.simplefilter("always"); pp.preproc_correct_split_approach_retract(i)
    seg = list(i["segment"])
    if not any(issubclass(x.category, pp.CannotSplitWarning) for x in wl):
        sw = sum(1 for j in range(1, n) if seg[j] != seg[j - 1])
        if sw > 1 or not (seg[0] == 0 or all(v == 1 for v in seg)): bad.append("segment %r" % seg)
        if kk >= 0 and seg != [0] * kk + [1] * (n - kk): bad.append("segment switches at %r, turning point is %d" % (seg, kk))
    elif seg != seg0: bad.append("segment changed although splitting was refused")
elif fn == "t_smooth":
    tp = np.array({col("tp")!r}); na = a["na"]
    seg = [0] * na + [1] * a["nr"]
    i = mk({{"height (measured)": h, "force": f, "tip position": tp}}, seg=seg)
    with warnings.catch_warnings():
        warnings.simplefilter("ignore")
        try:
            pp.preproc_smooth_height(i)
            for c in ("height (measured)", "tip position"):
                o = i[c]
                if not (np.all(np.diff(o[:na]) < 0) and np.all(np.diff(o[na:]) > 0)): bad.append("not strictly monotonic: %s %r" % (c, o))
        except ValueError as e:
            bad.append("raised %r" % (e,))
print({ob["name"]!r}, bad)
if bad:
    print("REPRODUCED"); sys.exit(1)
sys.exit(0)
'''
