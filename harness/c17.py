"""C17 - rating features are well-defined, bounded and independent of force units."""
import copy
import warnings
from fractions import Fraction as Fr

from symx import core, symnp, symlmfit
from symx.core import (real, assume, prove, witness, check_assumptions, same, all_of, any_of,
                       implies, is_nan, is_inf, sym_ite)

from harness import common

ID = "C17"
LEVEL = "other"
LAST_WORLD = None
EXPLANATION = (
    "Bounded symbolic verification of the real IndentationFeatures: all 15 feat_* "
    "methods, the data accessors, compute_features and get_feature_names, on a "
    "fitted curve whose approach abscissa (strictly decreasing, as the accessor "
    "asserts), force, fit column and contact point are solver variables "
    "(gaussian_filter1d is an exact linear shim with scipy's kernel weights and "
    "reflect boundary; log is uninterpreted with log(1+v)>=0 for v>=0). For every "
    "position of the contact point relative to the samples z3 shows: each feature "
    "is NaN or finite; binary features are 0/1/NaN; fraction-type features lie in "
    "[0,1]; magnitude-type features are >= 0; values are returned in the order of "
    "the sorted names for every requested subset; the computation leaves the curve "
    "unchanged; features do not depend on the retract segment; and the product "
    "program with (c*force, c*fit) for the factors c=2 (thorough: also 1/3) returns identical values. In "
    "unfitted / unsuccessful states every fit-dependent feature is NaN and nothing "
    "raises.")
ASSUMPTIONS = [
    "approach force reaches positive values (max > 0) and is not constant: the features divide by max(force) and by max-min",
    "the sample-count-guarded branches (bln_slope, bln_variation, idt_spike_area need >20 samples, apr_spikes_count >50, cp_curvature >=60 samples between contact and maximum) are outside the bound Na=8: only their NaN branch is decided",
    "log is an uninterpreted function with v>=0 -> log(1+v)>=0, monotone axioms as listed in symnp._log1; gaussian kernel weights are the doubles scipy computes, read as exact rationals",
    "force-unit independence of feat_con_idt_monotony is not decided (a ratio-of-sums query stayed unknown) and not claimed; its other obligations are",
    "real arithmetic",
]
BUDGET_S = {"quick": 1000, "thorough": 3400}
QUERY_TIMEOUT_MS = {"quick": 60000, "thorough": 240000}

BIN = ["feat_bin_apr_spikes_count", "feat_bin_cp_position", "feat_bin_size"]
FRACTION = ["feat_con_apr_flatness", "feat_con_apr_size"]
MAGNITUDE = ["feat_con_apr_sum", "feat_con_bln_slope", "feat_con_bln_variation", "feat_con_cp_magnitude",
             "feat_con_idt_maxima_75perc", "feat_con_idt_monotony", "feat_con_idt_sum",
             "feat_con_idt_sum_75perc", "feat_con_idt_spike_area"]
SIGNED = ["feat_con_cp_curvature"]
ALL = sorted(BIN + FRACTION + MAGNITUDE + SIGNED)
#: force-unit independence NOT decided (one path's ratio query stayed unknown
#: after 240 s + 480 s): not claimed for these features
UNDECIDED_SCALE = {"feat_con_idt_monotony"}


def bounds(tier):
    return {"approach samples Na": 6 if tier == "quick" else 8, "retract samples": 2,
            "features with reachable main branch": ["apr_flatness", "apr_size", "apr_sum", "cp_magnitude",
                                                    "cp_position", "idt_maxima_75perc", "idt_monotony", "idt_sum",
                                                    "idt_sum_75perc", "size"],
            "cp_magnitude window": "extra task with Na=11 (the window is empty below 10 samples beyond the contact point)",
            "outside": "longer segments; the >20/>50-sample branches; doubles"}


def tasks(tier):
    na = 6 if tier == "quick" else 8
    ts = []
    for nm in ALL:
        for sc in (("2",) if tier == "quick" else ("2", "1/3")):
            ts.append({"name": f"feature:{nm}:x{sc}", "fn": "t_feature", "args": {"name": nm, "na": na, "scale": sc},
                       "max_paths": 8000, "witnesses": ["computed"]})
    # the residual-at-contact-point feature needs >= 10 approach samples beyond
    # the contact point before its window is non-empty
    ts.append({"name": "feature:feat_con_cp_magnitude:N11:x2", "fn": "t_feature",
               "args": {"name": "feat_con_cp_magnitude", "na": 11, "scale": "2"},
               "max_paths": 8000, "witnesses": ["computed", "defined"]})
    ts.append({"name": "order-and-subsets", "fn": "t_order", "args": {}, "witnesses": ["computed"]})
    for st in ("fresh", "unsuccessful", "unsuccessful-with-stale-parameters", "no-contact-point"):
        ts.append({"name": f"unfitted:{st}", "fn": "t_unfitted", "args": {"state": st}})
    return ts


def _setup(na, nr=2, tag=""):
    global LAST_WORLD
    w = common.indent_world()
    LAST_WORLD = w
    n = na + nr
    x = [real(f"{tag}x{i}") for i in range(n)]
    y = [real(f"{tag}y{i}") for i in range(n)]
    f = [real(f"{tag}fit{i}") for i in range(n)]
    for i in range(na - 1):
        assume(x[i] > x[i + 1])
    cp = real(f"{tag}cp")
    return w, n, x, y, f, cp


def _curve(w, x, y, f, cp, na, fit_nan_outside=True):
    n = len(x)
    seg = [0] * na + [1] * (n - na)
    idnt = common.make_indentation(w, {"tip position": symnp.SymArr(list(x)), "force": symnp.SymArr(list(y)),
                                       "segment": symnp.SymArr(seg, dtype=symnp.uint8)},
                                   spring_constant=Fr(1, 10))
    fitcol = [f[i] if seg[i] == 0 else float("nan") for i in range(n)]
    idnt["fit"] = symnp.SymArr(fitcol)
    fp = idnt.fit_properties
    fitmod = w.modules["nanite.fit"]
    for k, v in fitmod.FP_DEFAULT.items():
        dict.__setitem__(fp, k, copy.deepcopy(v))
    md = w.modules["nanite.model"].models_available["hertz_para"]
    P = md.get_parameter_defaults()
    P["contact_point"].value = cp
    dict.__setitem__(fp, "params_fitted", P)
    dict.__setitem__(fp, "params_initial", md.get_parameter_defaults())
    dict.__setitem__(fp, "success", True)
    dict.__setitem__(fp, "hash", "h")
    return idnt


def _call(w, idnt, name):
    IF = w.modules["nanite.rate.features"].IndentationFeatures
    with warnings.catch_warnings():
        warnings.simplefilter("ignore")
        v = getattr(IF(idnt), name)()
    if isinstance(v, symnp.SymArr):
        v = v.item()
    return v


def _wellformed(y, na):
    ymax = y[0]
    ymin = y[0]
    for v in y[1:na]:
        ymax = sym_ite(v > ymax, v, ymax)
        ymin = sym_ite(v < ymin, v, ymin)
    assume(ymax > 0)
    assume(ymax > ymin)


def t_feature(name, na, scale="2"):
    w, n, x, y, f, cp = _setup(na)
    _wellformed(y, na)
    # common force factor: a concrete power of two and a non-dyadic rational
    # (a symbolic factor made every ratio query non-linear beyond the cap)
    c = Fr(scale)
    d = [real(f"retract_delta{i}") for i in range(n - na)]
    check_assumptions()
    idnt = _curve(w, x, y, f, cp, na)
    snap_cols = {k: list(idnt[k].elems) for k in idnt.columns}
    snap_fp = {k: idnt.fit_properties[k] for k in idnt.fit_properties}
    try:
        v = _call(w, idnt, name)
    except (ValueError, IndexError, ZeroDivisionError, KeyError, TypeError) as e:
        core.violated("no-exception", info={"feature": name, "exception": repr(e)[:200]})
        return {"raised": repr(e)[:120]}
    witness("computed")
    if isinstance(v, bool):
        v = int(v)
    if isinstance(v, core.SymBool):
        v = core.mk_int(core.iv(v))
    prove("nan-or-finite", is_nan(v) or not is_inf(v), info={"value": repr(v)[:80]})
    if not is_nan(v):
        witness("defined")
        if name in BIN:
            prove("binary-is-0-or-1", any_of([same(v, 0), same(v, 1)]))
        if name in FRACTION:
            prove("fraction-in-unit-interval", all_of([v >= 0, v <= 1]))
        if name in MAGNITUDE:
            prove("magnitude-non-negative", v >= 0)
    # computing leaves the curve unchanged
    prove("curve-unchanged", set(snap_cols) == set(idnt.columns)
          and all(all(a is b or (is_nan(a) and is_nan(b)) for a, b in zip(snap_cols[k], idnt[k].elems)) for k in snap_cols)
          and all(idnt.fit_properties.get(k) is snap_fp[k] for k in snap_fp))
    # retract independence
    y2 = list(y[:na]) + [y[na + i] + d[i] for i in range(n - na)]
    x2 = list(x[:na]) + [x[na + i] + d[i] for i in range(n - na)]
    v2 = _call(w, _curve(w, x2, y2, f, cp, na), name)
    prove("independent-of-retract-segment", same(_num(v), _num(v2)))
    # force-unit independence
    if name in UNDECIDED_SCALE:
        return {"feature": name, "value": repr(v)[:100], "scale invariance": "not decided"}
    v3 = _call(w, _curve(w, x, [c * t for t in y], [c * t for t in f], cp, na), name)
    prove("unchanged-by-common-force-factor", same(_num(v), _num(v3)), info={"value": repr(v)[:80]})
    return {"feature": name, "value": repr(v)[:100]}


def _num(v):
    if isinstance(v, bool):
        return int(v)
    if isinstance(v, core.SymBool):
        return core.mk_int(core.iv(v))
    return v


def t_order():
    w, n, x, y, f, cp = _setup(4)
    _wellformed(y, 4)
    check_assumptions()
    idnt = _curve(w, x, y, f, cp, 4)
    IF = w.modules["nanite.rate.features"].IndentationFeatures
    names_all = IF.get_feature_names()
    prove("all-names-sorted", list(names_all) == ALL, info={"names": list(names_all)})
    prove("binary-names", IF.get_feature_names(which_type="binary") == sorted(BIN))
    prove("continuous-names", IF.get_feature_names(which_type="continuous") == sorted(FRACTION + MAGNITUDE + SIGNED))
    witness("computed")
    with warnings.catch_warnings():
        warnings.simplefilter("ignore")
        single = {nm: _num(getattr(IF(idnt), nm)()) for nm in ALL}
        for sub in (["feat_con_idt_sum", "feat_bin_size", "feat_con_apr_size"], list(reversed(ALL)), ALL[3:7]):
            vals, nn = IF.compute_features(idnt, which_type="all", names=list(sub), ret_names=True)
            if sub == list(reversed(ALL)):
                # which_type == "all" with explicit names keeps the order given
                prove("explicit-names-with-all-keep-given-order", list(nn) == list(sub))
            for k, nm in enumerate(nn):
                prove(f"value-belongs-to-name[{nm}]", same(_num(vals.elems[k]), single[nm]))
            vals2, nn2 = IF.compute_features(idnt, which_type="continuous", names=list(sub), ret_names=True)
            prove("typed-selection-sorted", list(nn2) == sorted(s for s in sub if s.startswith("feat_con_")))
            for k, nm in enumerate(nn2):
                prove(f"typed-value-belongs-to-name[{nm}]", same(_num(vals2.elems[k]), single[nm]))
    # the type selection given as a list/tuple, in either order
    for wt in (["continuous", "binary"], ["binary", "continuous"], ("continuous", "binary"), ["binary"]):
        want = sorted(n for n in ALL if any(n.startswith("feat_" + t[:3] + "_") for t in wt))
        got = IF.get_feature_names(which_type=wt)
        prove("type-list-selection-sorted", list(got) == want, info={"which_type": list(wt), "names": list(got)})
        nn3, idx3 = IF.get_feature_names(which_type=wt, ret_indices=True)
        prove("indices-belong-to-names", [ALL[i] for i in idx3] == list(nn3), info={"which_type": list(wt)})
        with warnings.catch_warnings():
            warnings.simplefilter("ignore")
            vals3, nn4 = IF.compute_features(idnt, which_type=wt, ret_names=True)
        prove("type-list-values-sorted-by-name", list(nn4) == want)
        for k, nm in enumerate(nn4):
            prove(f"type-list-value-belongs-to-name[{nm}]", same(_num(vals3.elems[k]), single[nm]))
    try:
        IF.get_feature_names(names=["feat_con_nope"])
        prove("unknown-name-rejected", False)
    except ValueError:
        prove("unknown-name-rejected", True)
    return {}


def t_unfitted(state):
    w, n, x, y, f, cp = _setup(4)
    check_assumptions()
    idnt = _curve(w, x, y, f, cp, 4)
    fp = idnt.fit_properties
    if state == "fresh":
        dict.clear(fp)
    elif state == "unsuccessful":
        dict.__setitem__(fp, "success", False)
        dict.__delitem__(fp, "params_fitted")
    elif state == "unsuccessful-with-stale-parameters":
        # what a multi-pass fit leaves behind when a later pass has too few
        # points: success False, NaN fit column, parameters of the first pass
        dict.__setitem__(fp, "success", False)
        idnt["fit"] = symnp.SymArr([float("nan")] * n)
    else:
        dict.__delitem__(fp["params_fitted"], "contact_point")
    for nm in ALL:
        try:
            v = _call(w, idnt, nm)
        except Exception as e:   # noqa: BLE001
            core.violated("no-exception-without-fit", info={"feature": nm, "state": state, "exception": repr(e)[:160]})
            continue
        if nm == "feat_bin_size" and state != "fresh":
            if state == "no-contact-point":
                pass
            prove("size-criterion-needs-only-an-attempted-fit", v in (True, False))
        else:
            prove(f"nan-without-successful-fit[{nm}]", is_nan(v), info={"value": repr(v)[:60]})
    return {"state": state}


def classify(task, ob):
    nm = task["args"].get("name", task["args"].get("state", "order"))
    return f"{ob['name'].split('[')[0]}:{nm}"


def replay(task, ob, model):
    a = task["args"]
    g = lambda nm, d=0.0: float(model.get(nm, d))
    if task["fn"] == "t_unfitted":
        st = a["state"]
        return common.REPLAY_HEAD + f'''
import nanite, copy, warnings
from nanite.rate.features import IndentationFeatures as IF
from nanite.model import models_available
from nanite.fit import FP_DEFAULT
state = {st!r}
n = 40
x = np.linspace(1e-6, -1e-6, n); y = np.where(x < 0, (-x) ** 1.5 * 1e3, 0.0)
i = nanite.Indentation(data={{"tip position": x, "force": y, "segment": np.zeros(n, dtype=np.uint8)}},
                       metadata={{"path": "/s/c.jpk-force", "enum": 0, "point count": n, "imaging mode": "force-distance"}})
fp = i.fit_properties
if state != "fresh":
    for k, v in FP_DEFAULT.items(): dict.__setitem__(fp, k, copy.deepcopy(v))
    P = models_available["hertz_para"].get_parameter_defaults(); P["contact_point"].value = -2e-7
    dict.__setitem__(fp, "params_fitted", P); dict.__setitem__(fp, "hash", "h")
    dict.__setitem__(fp, "success", state == "no-contact-point")
    i["fit"] = y * 1.01 if state == "no-contact-point" else np.full(n, np.nan)
    if state == "unsuccessful": dict.__delitem__(fp, "params_fitted")
    if state == "no-contact-point": dict.__delitem__(fp["params_fitted"], "contact_point")
bad = []
for nm in IF.get_feature_names():
    try:
        with warnings.catch_warnings():
            warnings.simplefilter("ignore")
            v = getattr(IF(i), nm)()
    except Exception as e:
        bad.append("%s raised %r" % (nm, e)); continue
    if nm == "feat_bin_size" and state != "fresh": continue
    if not (isinstance(v, float) and np.isnan(v)): bad.append("%s = %r without a successful fit" % (nm, v))
print(state, bad[:5])
if bad:
    print("REPRODUCED"); sys.exit(1)
sys.exit(0)
'''
    if task["fn"] != "t_feature":
        return common.REPLAY_HEAD + f'''
import nanite
from nanite.rate.features import IndentationFeatures as IF
print("structural obligation", {ob["name"]!r}, "- re-evaluated on the real class")
names = IF.get_feature_names()
bad = list(names) != sorted(names)
for wt in (["continuous", "binary"], ["binary", "continuous"], ("continuous", "binary"), ["binary"]):
    want = sorted(n for n in names if any(n.startswith("feat_" + t[:3] + "_") for t in wt))
    got, idx = IF.get_feature_names(which_type=wt, ret_indices=True)
    if list(got) != want or [names[j] for j in idx] != list(got):
        print("which_type", wt, "gives", got, idx); bad = True
x = np.linspace(1e-6, -1e-6, 40); y = np.linspace(0, 1e-9, 40)
i = nanite.Indentation(data={{"tip position": x, "force": y, "segment": np.zeros(40, dtype=np.uint8)}},
                       metadata={{"path": "/s/c.jpk-force", "enum": 0, "point count": 40, "imaging mode": "force-distance"}})
try:
    for st in ("fresh", "unsuccessful"):
        if st == "unsuccessful": dict.__setitem__(i.fit_properties, "success", False); dict.__setitem__(i.fit_properties, "y_axis", "force")
        v = IF.compute_features(i)
        print(st, v)
except Exception as e:
    print("raised", repr(e)); bad = True
if bad:
    print("REPRODUCED"); sys.exit(1)
sys.exit(0)
'''
    na = a["na"]
    n = na + 2
    x = [g(f"x{i}") for i in range(n)]
    y = [g(f"y{i}") for i in range(n)]
    f = [g(f"fit{i}") for i in range(n)]
    return common.REPLAY_HEAD + f'''
import nanite, copy, warnings
from nanite.rate.features import IndentationFeatures as IF
from nanite.model import models_available
from nanite.fit import FP_DEFAULT
na = {na}; name = {a["name"]!r}
x = np.array({x!r}); y = np.array({y!r}); f = np.array({f!r}); cp = {g("cp")!r}; c = {float(Fr(a.get("scale", "2")))!r}
d = np.array({[g(f"retract_delta{i}", 1.0) for i in range(2)]!r})
def curve(x, y, f):
    n = len(x); seg = np.array([0] * na + [1] * (n - na), dtype=np.uint8)
    i = nanite.Indentation(data={{"tip position": x.copy(), "force": y.copy(), "segment": seg}},
                           metadata={{"path": "/s/c.jpk-force", "enum": 0, "point count": n, "imaging mode": "force-distance"}})
    fc = f.copy(); fc[na:] = np.nan; i["fit"] = fc
    fp = i.fit_properties
    for k, v in FP_DEFAULT.items(): dict.__setitem__(fp, k, copy.deepcopy(v))
    P = models_available["hertz_para"].get_parameter_defaults(); P["contact_point"].value = cp
    dict.__setitem__(fp, "params_fitted", P); dict.__setitem__(fp, "success", True); dict.__setitem__(fp, "hash", "h")
    return i
def val(i):
    with warnings.catch_warnings():
        warnings.simplefilter("ignore")
        return float(getattr(IF(i), name)())
bad = []
try:
    i = curve(x, y, f); before = {{k: np.array(i[k], copy=True) for k in i.columns}}
    v = val(i)
    if np.isinf(v): bad.append("infinite value")
    if not np.isnan(v):
        if name.startswith("feat_bin_") and v not in (0.0, 1.0): bad.append("binary value %r" % v)
        if name in {FRACTION!r} and not (0 <= v <= 1): bad.append("fraction %r" % v)
        if name in {MAGNITUDE!r} and v < 0: bad.append("negative magnitude %r" % v)
    if any(not np.array_equal(before[k], i[k], equal_nan=True) for k in before): bad.append("curve modified")
    y2 = y.copy(); y2[na:] += d; x2 = x.copy(); x2[na:] += d
    v2 = val(curve(x2, y2, f))
    same = lambda u, w_: (np.isnan(u) and np.isnan(w_)) or abs(u - w_) <= 1e-9 * max(abs(u), abs(w_), 1e-300)
    if not same(v, v2): bad.append("depends on retract: %r vs %r" % (v, v2))
    v3 = val(curve(x, y * c, f * c))
    if not same(v, v3): bad.append("changes with force factor %r: %r vs %r" % (c, v, v3))
except Exception as e:
    bad.append("raised %r" % (e,))
print(name, {ob["name"]!r}, bad)
if bad:
    print("REPRODUCED"); sys.exit(1)
sys.exit(0)
'''
