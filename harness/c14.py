"""C14 - preprocessing order rules and auto-sorting (CrossHair on the real
nanite.preproc)."""
ID = "C14"
ENGINE = "crosshair"
UNITS = "xh/c14_units.py"
SOURCES = ["src/nanite/preproc.py", "src/nanite/indent.py"]
FUNCTIONS = ["indent.Indentation.apply_preprocessing (two consecutive requests)", "preproc.autosort", "preproc.check_order", "preproc.available", "preproc.apply",
             "preproc.get_func", "preproc.preprocessing_step (registration data)"]
EXPLANATION = (
    "CrossHair executes the real preproc.autosort/check_order/apply symbolically on "
    "a list of L pairwise different solver-chosen step indices (one condition per "
    "length L, all run to 'Confirmed over all paths', i.e. the path tree over all "
    "ordered selections of that length is closed, not sampled). Postconditions: for "
    "selections closed under steps_required autosort returns a permutation that "
    "satisfies an independently written order predicate and check_order, is "
    "idempotent and leaves valid orders unchanged; check_order passes iff the "
    "predicate holds; apply accepts iff every required step occurs earlier; "
    "available() is valid; unknown identifiers (symbolic str, len<=3) raise KeyError. "
    "The acceptance rule is also checked through the public curve API: two "
    "consecutive apply_preprocessing requests with solver-chosen step lists "
    "(lengths L1,L2<=2; thorough L1,L2<=3 with L1+L2<=5): the second is accepted iff its own order "
    "satisfies the rule, whatever was applied before.")
ASSUMPTIONS = [
    "step bodies are no-ops in the apply condition (order logic only); registration data are the real ones",
    "the six shipped steps; unknown identifiers up to 3 characters",
]


def bounds(tier):
    return {"selection length L": "0..5" if tier == "quick" else "0..6 (all 1957 ordered selections)",
            "curve API": "two requests, lengths L1,L2<=2 (thorough: <=3 with L1+L2<=5)",
            "unknown identifier length": "<=3", "per-condition timeout s": 400 if tier == "quick" else 1500}


def conditions(tier):
    top = 5 if tier == "quick" else 6
    t = 400 if tier == "quick" else 1500
    cs = []
    for fn in ("autosort", "check_order", "apply"):
        for n in range(0, top + 1):
            cs.append({"fn": f"{fn}_len{n}", "timeout_s": t, "family": fn})
    lens = [(a, b) for a in range(0, 4) for b in range(0, 4)
            if (a <= 2 and b <= 2 if tier == "quick" else a + b <= 5)]
    for a, b in lens:
        cs.append({"fn": f"curve_api_len{a}_{b}", "timeout_s": t, "family": "curve-api"})
    cs.append({"fn": "unknown_identifier", "timeout_s": t, "family": "unknown"})
    cs.append({"fn": "available_valid", "timeout_s": 60, "family": "available"})
    return cs


def twins(tier):
    return [{"fn": "twin_reachable_len3", "timeout_s": 60}, {"fn": "twin_unknown", "timeout_s": 60}]


def classify(cond, res):
    return f"{cond['family']}:postcondition-false"


def replay(cond, res):
    return f'''# replay of a CrossHair counterexample on the real nanite.preproc
import sys, warnings
warnings.filterwarnings("ignore")
sys.path.insert(0, "/verif")
from xh.c14_units import *
r = {res["call"]}
print({res["call"]!r}, "->", r)
idx = {res["call"][res["call"].index("(") + 1:-1]}
if isinstance(idx, list):
    sel = [IDS[i] for i in idx]
    print("selection:", sel)
    try:
        print("autosort:", preproc.autosort(list(sel)))
    except Exception as e:
        print("autosort raised", type(e).__name__, e)
if r is not True:
    print("REPRODUCED"); sys.exit(1)
sys.exit(0)
'''
