"""Shared set-up for the fitter harnesses (C04, C05, C10, C11): a real
nanite.indent.Indentation over symbolic columns, fitted through the public
fit_model() with lmfit.minimize replaced by the contract stub."""
from fractions import Fraction as Fr

from symx import core, symnp, symlmfit
from symx.core import real, assume, sym_ite, sym_abs

import specs
from harness import common

LAYOUTS = {
    "3+3": [0, 0, 0, 1, 1, 1],
    "4+2": [0, 0, 0, 0, 1, 1],
    "6+0": [0, 0, 0, 0, 0, 0],
    "2+2": [0, 0, 1, 1],
    "4+0": [0, 0, 0, 0],
    "5+3": [0, 0, 0, 0, 0, 1, 1, 1],
    "12+0": [0] * 12,
    "12+2": [0] * 12 + [1, 1],
}

STUBS = [
    "lmfit.minimize is a contract stub: every varying parameter of the result is an arbitrary real inside its [min,max], fixed parameters keep their value, chisqr = sum(residual(result)^2) computed by calling the real residual function; what the optimiser converges to is outside the claim",
    "fit.obj2bytes is replaced by a constant token (the hash is the subject of C12, not of this check)",
    "afmformats.meta.MetaData replaced by a plain dict",
    "initial parameters are always passed explicitly (the POC-based guess is the subject of C08)",
]


def setup(layout="3+3", model_key="hertz_para", vary=("E", "contact_point", "baseline"),
          sym_init=True, bounded_cp=False):
    """Returns (world, idnt, x, y, seg, params_initial, env)."""
    w = common.indent_world()
    fitmod = w.modules["nanite.fit"]
    fitmod.obj2bytes = lambda obj: b"token"
    symlmfit.reset_stub()
    seg = LAYOUTS[layout]
    n = len(seg)
    x = [real(f"x{i}") for i in range(n)]
    y = [real(f"y{i}") for i in range(n)]
    idnt = common.make_indentation(w, {
        "tip position": symnp.SymArr(x), "force": symnp.SymArr(y),
        "segment": symnp.SymArr(seg, dtype=symnp.uint8)})
    md = w.modules["nanite.model"].models_available[model_key]
    P = md.get_parameter_defaults()
    # every parameter value is symbolic inside the model's bounds (fixed ones
    # too: their initial value is what must be reported back)
    init = common.sym_params(model_key, prefix="init_")
    for name, p in P.items():
        p.vary = name in vary
        p.value = init[name]
    if bounded_cp:
        lo, hi = real("cp_min"), real("cp_max")
        assume(lo < hi)
        P["contact_point"].set(min=lo, max=hi)
    return w, idnt, x, y, seg, P, init


def spec_force(model_key, pvals, xk):
    """Specification force at scaled abscissa xk (scalar)."""
    cp, bl = pvals["contact_point"], pvals["baseline"]
    d = cp - xk
    c = d > 0
    if c is False:
        return bl
    f = specs.contact_force(common.SymOps, model_key, d, pvals) + bl
    if c is True:
        return f
    return sym_ite(c, f, bl)


def spec_weight(xk, cp, weight_cp):
    """min(1, |xk - cp| / weight_cp), or 1 when weighting is off."""
    r = core.sym_div(sym_abs(xk - cp), weight_cp)
    return sym_ite(r > 1, 1, r)


def in_range(x_i, seg_i, want_seg, a, b):
    """Specification of the fitted point set (absolute range)."""
    if seg_i != want_seg:
        return False
    lo = sym_ite(a <= b, a, b)
    hi = sym_ite(a <= b, b, a)
    return core.any_of([a == b, core.all_of([x_i >= lo, x_i <= hi])])


def opt_values(res_params):
    return {name: p.value for name, p in res_params.items()}
