"""C16 - rating containers round-trip and only ever grow."""
import copy
import itertools
import types
from fractions import Fraction as Fr

from symx import core, symnp, symlmfit, fakeh5
from symx.core import (real, assume, prove, witness, check_assumptions, same, all_of, is_nan)

from harness import common, c20

ID = "C16"
LEVEL = "model_checking"
LAST_WORLD = None
EXPLANATION = (
    "Bounded model checking of the real rate/io.py save_hdf5 / load_hdf5 / load / "
    "hdf5_rated against an in-memory model of h5py's documented store contract, "
    "on fitted curves whose columns, chi-square and fitted values are solver "
    "variables. (a) Round trip of one curve: every column, every fit setting "
    "through its attribute codec (step list join/split, range_x str/parse, JSON "
    "options, parameter dumps/loads), user name, rating and comment. (b) All "
    "save histories of length k over {curve A, A again with other user fields, A "
    "with a different fit, another enumeration, another file}: entries present "
    "before a save are structurally identical after it, a repeated save changes "
    "only user/version/time attributes, a different fit is refused with the tree "
    "unchanged, load returns one rating per stored curve. (c) Fault enumeration: "
    "the save of a second curve is made to fail at every write call f; load must "
    "still return every previously stored rating. Counterexamples are replayed on "
    "real h5py files with the failing write patched to raise OSError.")
ASSUMPTIONS = [
    "h5py replaced by an in-memory group tree with its documented contract (HDF5 on-disk atomicity, type coercion, gzip/fletcher32 are outside; replays use real h5py)",
    "IndentationGroup(path) of the embedded raw file is a stub over a small model of the temp directory (path -> extracted content, read lazily like afmformats does) that rebuilds the curve from the recorded raw columns; hash_file is an injective function of the path; np.fromfile returns an opaque token",
    "lmfit Parameters.dumps/loads is a contract stub (opaque round trip)",
    "N=3 samples per curve; settings as produced by fit_model plus the corner values [] and numpy scalars for the two string codecs",
]
BUDGET_S = {"quick": 900, "thorough": 2400}
QUERY_TIMEOUT_MS = {"quick": 30000, "thorough": 60000}
OPS = ["A", "A-again", "A-otherfit", "B-enum", "C-file", "D-same-basename"]


def bounds(tier):
    return {"history length": 2 if tier == "quick" else 4, "operations": OPS,
            "fault points": "every write call of the second save", "N": 3}


def tasks(tier):
    ts = [{"name": "roundtrip:typical", "fn": "t_roundtrip", "args": {"variant": "typical"}, "witnesses": ["loaded"]},
          {"name": "roundtrip:no-preprocessing", "fn": "t_roundtrip", "args": {"variant": "empty-steps"}},
          {"name": "roundtrip:range-from-numpy-scalars", "fn": "t_roundtrip", "args": {"variant": "numpy-range"}},
          {"name": "roundtrip:options", "fn": "t_roundtrip", "args": {"variant": "options"}}]
    k = 2 if tier == "quick" else 4
    for hist in itertools.product(range(len(OPS)), repeat=k):
        ts.append({"name": "hist:" + ">".join(OPS[i] for i in hist), "fn": "t_history", "args": {"hist": list(hist)}})
    for f in range(0, 40):
        ts.append({"name": f"fault:{f}", "fn": "t_fault", "args": {"f": f}})
    return ts


def _world():
    global LAST_WORLD
    w, afm = c20._world()
    fakeh5.reset()
    w.shims["h5py"] = fakeh5
    w.modules.pop("h5py", None)
    io = w.load("nanite.rate.io")
    io.h5py = fakeh5
    io.hash_file = lambda path, blocksize=65536: "h" + "".join(c for c in str(path) if c.isalnum())
    registry = {}
    tmpfs = {}          # extracted raw files: temp path -> source measurement path

    class RawBytes(symnp.SymArr):
        """Opaque content of a measurement file (identified by its source)."""
        def __init__(self, source):
            super().__init__([True, False], dtype=symnp.bool_)
            self.source = source

        def copy(self):
            return RawBytes(self.source)

        def tofile(self, p):
            tmpfs[str(p)] = self.source
    symnp.fromfile = lambda path, dtype=None: RawBytes(str(path))

    class Grp:
        """IndentationGroup(path) of an extracted raw file: rebuilds the curves
        of the measurement whose bytes were written to that path."""
        def __init__(self, path):
            self.path = str(path)
            if self.path not in tmpfs:
                raise OSError("no such extracted file")

        @property
        def source(self):
            # afmformats loads the column data lazily: what the extracted file
            # holds when the curve is finally read is what counts
            return tmpfs[self.path]

        def get_enum(self, enum):
            raw = registry[(self.source, enum)]
            return common.make_indentation(w, {c: symnp.SymArr(list(v)) if c != "segment"
                                               else symnp.SymArr(list(v), dtype=symnp.uint8) for c, v in raw.items()},
                                           spring_constant=Fr(1, 10), path=self.source, enum=enum)
    io.IndentationGroup = Grp
    import pathlib

    class P(pathlib.PurePosixPath):
        def exists(self):
            return str(self) in fakeh5.FILES

        def is_dir(self):
            return False
    io.pathlib = types.SimpleNamespace(Path=P)
    io.tempfile = types.SimpleNamespace(mkdtemp=lambda prefix="": "/tmpdir")
    io.shutil = types.SimpleNamespace(rmtree=lambda *a, **k: None)
    LAST_WORLD = w
    return w, io, registry


def make_curve(w, registry, tag, path, enum, variant="typical", fit_tag=None):
    n = 3
    raw = {"force": [real(f"{tag}_f{i}") for i in range(n)],
           "height (measured)": [real(f"{tag}_h{i}") for i in range(n)],
           "segment": [0, 0, 1]}
    registry[(path, enum)] = raw
    idnt = common.make_indentation(w, {c: symnp.SymArr(list(v)) if c != "segment"
                                       else symnp.SymArr(list(v), dtype=symnp.uint8) for c, v in raw.items()},
                                   spring_constant=Fr(1, 10), path=path, enum=enum)
    # preprocessed + fitted state (columns are what a fit leaves behind)
    idnt["tip position"] = symnp.SymArr([real(f"{tag}_t{i}") for i in range(n)])
    idnt["force"] = symnp.SymArr([real(f"{tag}_fo{i}") for i in range(n)])
    ft = fit_tag or tag
    idnt["fit"] = symnp.SymArr([real(f"{ft}_fit0"), real(f"{ft}_fit1"), float("nan")])
    idnt["fit residuals"] = symnp.SymArr([real(f"{ft}_res0"), real(f"{ft}_res1"), float("nan")])
    idnt["fit range"] = symnp.SymArr([True, True, False], dtype=symnp.bool_)
    md = w.modules["nanite.model"].models_available["hertz_para"]
    fp = idnt.fit_properties
    fitmod = w.modules["nanite.fit"]
    for k, v in fitmod.FP_DEFAULT.items():
        dict.__setitem__(fp, k, copy.deepcopy(v))
    pre = ["compute_tip_position", "correct_force_offset"]
    if variant == "empty-steps":
        pre = []
    dict.__setitem__(fp, "preprocessing", pre)
    rng = [-2e-06, 1e-06]
    if variant == "numpy-range":
        import numpy as _np
        rng = [_np.float64(-2e-06), _np.float64(1e-06)]
    dict.__setitem__(fp, "range_x", rng)
    if variant == "options":
        dict.__setitem__(fp, "preprocessing_options", {"correct_tip_offset": {"method": "fit_constant_line"}})
        dict.__setitem__(fp, "method_kws", {"max_nfev": 200})
    P0, P1 = md.get_parameter_defaults(), md.get_parameter_defaults()
    P1["E"].value = real(f"{ft}_E")
    P1["contact_point"].value = real(f"{ft}_cp")
    dict.__setitem__(fp, "params_initial", P0)
    dict.__setitem__(fp, "params_fitted", P1)
    for k, v in (("chi_sqr", real(f"{ft}_chi")), ("hash", "hash" + ft), ("success", True),
                 ("xmin", real(f"{tag}_xmin")), ("xmax", real(f"{tag}_xmax"))):
        dict.__setitem__(fp, k, v)
    return idnt


COLS = ["force", "tip position", "segment", "fit", "fit residuals", "fit range"]


def _same_col(a, b):
    if len(a) != len(b):
        return False
    return all_of([same(u, v) for u, v in zip(a, b)])


def _settings_equal(stored, loaded, info):
    conds = []
    for k, v in stored.items():
        if k not in loaded:
            conds.append(False)
            info.setdefault("missing", []).append(k)
            continue
        u = loaded[k]
        if k.startswith("params"):
            conds.append([p.__getstate__()[:7] for p in v.values()] == [p.__getstate__()[:7] for p in u.values()]
                         or all_of([all_of([same(x, y) if core.is_sym(x) or core.is_sym(y) else x == y
                                            for x, y in zip(p.__getstate__()[:7], q.__getstate__()[:7])])
                                    for p, q in zip(v.values(), u.values())]))
        elif k == "range_x":
            ok = len(u) == 2 and all(abs(float(x) - float(y)) <= 1e-12 * abs(float(y)) for x, y in zip(u, v))
            conds.append(ok)
        elif core.is_sym(v):
            conds.append(same(u, v))
        else:
            c = (list(u) == list(v)) if isinstance(v, (list, tuple)) else (u == v)
            conds.append(c)
            if not c:
                info.setdefault("differs", []).append((k, repr(v), repr(u)))
    return all_of(conds)


def t_roundtrip(variant):
    w, io, registry = _world()
    idnt = make_curve(w, registry, "a", "/data/a.jpk-force", 0, variant)
    stored_cols = {c: list(idnt[c].elems) for c in COLS}
    stored_fp = dict(idnt.fit_properties)
    check_assumptions()
    io.save_hdf5("/c.h5", idnt, user_rate=7, user_name="alice", user_comment="fine")
    core.count("transitions")
    try:
        ratings = io.load_hdf5("/c.h5")
    except Exception as e:   # noqa: BLE001
        core.violated("stored-container-loads", info={"variant": variant, "exception": repr(e)[:200]})
        return {"raised": repr(e)[:120]}
    witness("loaded")
    prove("one-rating", len(ratings) == 1)
    r = ratings[0]
    prove("user-fields", r["name"] == "alice" and r["rating"] == 7 and r["comment"] == "fine" and r["enum"] == 0)
    ds = r["data_set"]
    for c in COLS:
        prove(f"column[{c}]", _same_col(stored_cols[c], list(ds[c].elems)))
    info = {"variant": variant}
    prove("fit-settings-and-parameters-equal", _settings_equal(stored_fp, r["fit properties"], info), info=info)
    rated = io.hdf5_rated("/c.h5", idnt)
    prove("already-rated-lookup", rated[0] is True and rated[1] == 7 and rated[2] == "fine")
    other = types.SimpleNamespace(path="/data/zzz.jpk-force", enum=0)
    prove("unrated-lookup", io.hdf5_rated("/c.h5", other)[0] is False and io.hdf5_rated("/nope.h5", idnt)[0] is False)
    return {"variant": variant}


def _do(io, w, registry, op, j):
    """One save operation; returns (curve, exception)."""
    if op == "A":
        c = make_curve(w, registry, "a", "/data/a.jpk-force", 0)
    elif op == "A-again":
        c = make_curve(w, registry, "a", "/data/a.jpk-force", 0)
    elif op == "A-otherfit":
        c = make_curve(w, registry, "a", "/data/a.jpk-force", 0, fit_tag="a2")
        # a different fit at any force scale (newton-scale forces are ~1e-9):
        # the first fitted force value is at least doubled
        assume(real("a_fit0") > 0)
        assume(real("a2_fit0") >= 2 * real("a_fit0"))
    elif op == "B-enum":
        c = make_curve(w, registry, "b", "/data/a.jpk-force", 1)
    elif op == "C-file":
        c = make_curve(w, registry, "c", "/data/c.jpk-force", 0)
    else:
        # another measurement file with the same base name in another folder
        c = make_curve(w, registry, "d", "/other/a.jpk-force", 0)
    try:
        # the rating is a solver variable (equal to or different from earlier ones)
        io.save_hdf5("/c.h5", c, user_rate=real(f"rate{j}"), user_name=f"user{j}", user_comment=f"comment{j}")
        return c, None
    except (ValueError, OSError) as e:
        return c, e
    finally:
        core.count("transitions")


VOLATILE = ("user comment", "user name", "user rate", "user time", "user time str", "nanite version", "h5py version")


def _strip(snap, volatile=True):
    s = copy.copy(snap)
    if snap is None:
        return None
    out = {"attrs": {k: v for k, v in snap["attrs"].items() if not (volatile and k in VOLATILE)}}
    if "children" in snap:
        out["children"] = {n: _strip(c, volatile) for n, c in snap["children"].items()}
    else:
        out["data"] = snap["data"]
    return out


def _tree_eq(a, b):
    if (a is None) != (b is None):
        return False
    if a is None:
        return True
    if set(a["attrs"]) != set(b["attrs"]) or ("children" in a) != ("children" in b):
        return False
    conds = []
    for k in a["attrs"]:
        u, v = a["attrs"][k], b["attrs"][k]
        conds.append(same(u, v) if (core.is_sym(u) or core.is_sym(v)) else (repr(u) == repr(v)))
    if "children" in a:
        if set(a["children"]) != set(b["children"]):
            return False
        conds += [_tree_eq(a["children"][n], b["children"][n]) for n in a["children"]]
    else:
        da, db = a["data"], b["data"]
        if isinstance(da, list) and isinstance(db, list):
            conds.append(len(da) == len(db) and all_of([same(u, v) for u, v in zip(da, db)]))
        else:
            conds.append(repr(da) == repr(db))
    return all_of(conds)


def t_history(hist):
    w, io, registry = _world()
    stored = {}       # group id -> (fit tag)
    check_assumptions()
    for j, i in enumerate(hist):
        op = OPS[i]
        before = fakeh5.snapshot("/c.h5")
        c, err = _do(io, w, registry, op, j + 1)
        after = fakeh5.snapshot("/c.h5")
        gid = f"{io.hash_file(c.path)}_{c.enum}"
        if op == "A-otherfit" and gid in stored and stored[gid] != "a2":
            prove(f"step{j}:different-fit-refused", isinstance(err, ValueError), info={"err": repr(err)})
            prove(f"step{j}:refused-save-leaves-file-unchanged", _tree_eq(before, after))
            continue
        if op in ("A", "A-again") and stored.get(gid) == "a2":
            prove(f"step{j}:different-fit-refused", isinstance(err, ValueError), info={"err": repr(err)})
            prove(f"step{j}:refused-save-leaves-file-unchanged", _tree_eq(before, after))
            continue
        prove(f"step{j}:save-accepted", err is None, info={"err": repr(err)})
        if before is not None:
            ana_b = before["children"].get("analysis", {"children": {}})["children"]
            ana_a = after["children"]["analysis"]["children"]
            for g, sb in ana_b.items():
                if g == gid:
                    prove(f"step{j}:repeated-save-changes-only-user-fields", _tree_eq(_strip(sb), _strip(ana_a[g])))
                else:
                    prove(f"step{j}:other-entries-untouched[{g}]", g in ana_a and _tree_eq(_strip(sb, False), _strip(ana_a[g], False)))
            dat_b = before["children"].get("data", {"children": {}})["children"]
            for g, sb in dat_b.items():
                prove(f"step{j}:raw-data-entries-untouched[{g}]", _tree_eq(sb, after["children"]["data"]["children"][g]))
        stored[gid] = "a2" if op == "A-otherfit" else {"A": "a", "A-again": "a", "B-enum": "b", "C-file": "c", "D-same-basename": "d"}[op]
        ratings = io.load("/c.h5")
        prove(f"step{j}:one-rating-per-stored-curve", len(ratings) == len(stored))
        mine = [r for r in ratings if r["enum"] == c.enum and str(r["data_set"].path) == str(c.path)]
        # every stored curve is rebuilt from its own measurement file
        prove(f"step{j}:each-rating-belongs-to-its-own-file",
              sorted((str(r["data_set"].path), r["enum"]) for r in ratings)
              == sorted({"a": ("/data/a.jpk-force", 0), "a2": ("/data/a.jpk-force", 0), "b": ("/data/a.jpk-force", 1),
                         "c": ("/data/c.jpk-force", 0), "d": ("/other/a.jpk-force", 0)}[t] for t in stored.values()))
        prove(f"step{j}:latest-user-fields", len(mine) == 1 and all_of([same(mine[0]["rating"], real(f"rate{j + 1}")),
                                          mine[0]["name"] == f"user{j + 1}", mine[0]["comment"] == f"comment{j + 1}"]))
    return {"history": [OPS[i] for i in hist]}


def t_fault(f):
    w, io, registry = _world()
    a = make_curve(w, registry, "a", "/data/a.jpk-force", 0)
    check_assumptions()
    io.save_hdf5("/c.h5", a, user_rate=5, user_name="alice", user_comment="first")
    n0 = fakeh5.STATE["writes"]
    b = make_curve(w, registry, "b", "/data/b.jpk-force", 0)
    fakeh5.STATE["fault_at"] = n0 + f
    try:
        io.save_hdf5("/c.h5", b, user_rate=8, user_name="bob", user_comment="second")
        failed = False
    except OSError:
        failed = True
    fakeh5.STATE["fault_at"] = None
    core.count("transitions", 2)
    if not failed:
        core.note(f"write #{f} beyond the save ({fakeh5.STATE['writes'] - n0} writes): no fault")
        return {"fault": f, "failed": False}
    witness("failed-save")
    try:
        ratings = io.load("/c.h5")
    except Exception as e:   # noqa: BLE001
        core.violated("previous-ratings-readable-after-failed-save",
                      info={"fault at write": f, "what": fakeh5.STATE["log"][n0 + f], "exception": repr(e)[:160]})
        return {"fault": f, "load raised": repr(e)[:120]}
    first = [r for r in ratings if r["name"] == "alice"]
    prove("previous-rating-still-returned", len(first) == 1 and first[0]["rating"] == 5 and first[0]["comment"] == "first",
          info={"fault at write": f, "what": fakeh5.STATE["log"][n0 + f]})
    if first:
        prove("previous-columns-intact", _same_col(list(a["fit"].elems), list(first[0]["data_set"]["fit"].elems)))
    rated = io.hdf5_rated("/c.h5", a)
    prove("previous-rating-lookup-intact", rated[0] is True and rated[1] == 5)
    return {"fault": f, "failed": True, "what": fakeh5.STATE["log"][n0 + f]}


def classify(task, ob):
    if task["fn"] == "t_roundtrip":
        return f"roundtrip:{task['args']['variant']}:{ob['name'].split('[')[0]}"
    nm = ob["name"].split("[")[0]
    if ":" in nm and nm.startswith("step"):
        nm = nm.split(":", 1)[1]
    return f"{task['fn']}:{nm}"


REPLAY_SETUP = '''
import tempfile, pathlib, shutil, h5py, copy
import nanite
from nanite.rate import io as rio
jpk = pathlib.Path("/repo/tests/data")
files = [jpk / "fmt-jpk-fd_spot3-0192.jpk-force", jpk / "fmt-jpk-fd_single_bad_2017-01-16_1.jpk-force"]
tdir = pathlib.Path(tempfile.mkdtemp(prefix="c16_"))
def fitted(path, **fitkw):
    idnt = nanite.IndentationGroup(path)[0]
    idnt.apply_preprocessing(fitkw.pop("preprocessing", ["compute_tip_position", "correct_force_offset", "correct_tip_offset"]))
    idnt.fit_model(model_key="hertz_para", **fitkw)
    return idnt
'''


def _num(v):
    if isinstance(v, dict):
        return float(v.get("float", 0))
    return float(v)


def replay(task, ob, model):
    a = task["args"]
    if task["fn"] == "t_roundtrip":
        v = a["variant"]
        return common.REPLAY_HEAD + REPLAY_SETUP + f'''
variant = {v!r}
kw = {{}}
if variant == "numpy-range": kw["range_x"] = [np.float64(-2e-6), np.float64(1e-6)]
if variant == "options": kw["method_kws"] = {{"max_nfev": 200}}
idnt = fitted(files[0], **kw)
if variant == "empty-steps":
    idnt = nanite.IndentationGroup(files[0])[0]
    idnt.fit_model(model_key="hertz_para", preprocessing=[], x_axis="height (measured)") if False else None
    idnt = fitted(files[0]); dict.__setitem__(idnt.fit_properties, "preprocessing", [])
h5 = tdir / "c.h5"
bad = []
rio.save_hdf5(h5, idnt, user_rate=7, user_name="alice", user_comment="fine")
try:
    r = rio.load_hdf5(h5)[0]
    fp = r["fit properties"]
    for k, v in idnt.fit_properties.items():
        u = fp.get(k)
        if k.startswith("params"):
            ok = [p.__getstate__()[:7] for p in v.values()] == [p.__getstate__()[:7] for p in u.values()]
        elif k == "range_x":
            ok = list(map(float, u)) == list(map(float, v))
        elif isinstance(v, np.ndarray):
            ok = np.array_equal(u, v)
        elif isinstance(v, (list, tuple)):
            ok = list(u) == list(v)
        else:
            ok = u == v
        if not ok: bad.append("setting %s: stored %r loaded %r" % (k, v, u))
    for c in ["force", "tip position", "segment", "fit", "fit residuals", "fit range"]:
        if not np.array_equal(np.asarray(idnt[c], dtype=float), np.asarray(r["data_set"][c], dtype=float), equal_nan=True): bad.append("column " + c)
except Exception as e:
    bad.append("load raised %r" % (e,))
shutil.rmtree(tdir, ignore_errors=True)
print({ob["name"]!r}, bad)
if bad:
    print("REPRODUCED"); sys.exit(1)
sys.exit(0)
'''
    if task["fn"] == "t_fault":
        return common.REPLAY_HEAD + REPLAY_SETUP + f'''
f = {a["f"]}
h5 = tdir / "c.h5"
a = fitted(files[0]); b = fitted(files[1])
rio.save_hdf5(h5, a, user_rate=5, user_name="alice", user_comment="first")
# count write calls and fail the f-th one of the second save
counter = {{"n": 0}}
def wrap(cls, name):
    orig = getattr(cls, name)
    def w(self, *args, **kw):
        i = counter["n"]; counter["n"] += 1
        if i == f:
            raise OSError("injected failure at write #%d (%s)" % (i, name))
        return orig(self, *args, **kw)
    setattr(cls, name, w)
    return orig
saved = [(h5py.Group, "create_dataset", wrap(h5py.Group, "create_dataset")),
         (h5py.Group, "create_group", wrap(h5py.Group, "create_group")),
         (h5py.AttributeManager, "__setitem__", wrap(h5py.AttributeManager, "__setitem__"))]
failed = False
try:
    rio.save_hdf5(h5, b, user_rate=8, user_name="bob", user_comment="second")
except OSError as e:
    failed = True; print("second save failed:", e)
for cls, name, orig in saved: setattr(cls, name, orig)
bad = []
if failed:
    try:
        rr = rio.load(h5)
        first = [r for r in rr if r["name"] == "alice"]
        if len(first) != 1 or first[0]["rating"] != 5: bad.append("first rating lost: %r" % ([(r["name"], r["rating"]) for r in rr],))
    except Exception as e:
        bad.append("load raised %r after the failed save" % (e,))
shutil.rmtree(tdir, ignore_errors=True)
print({ob["name"]!r}, "write", f, bad)
if bad:
    print("REPRODUCED"); sys.exit(1)
sys.exit(0)
'''
    if task["fn"] == "t_history":
        hist = [OPS[i] for i in a["hist"]]
        return common.REPLAY_HEAD + REPLAY_SETUP + f'''
hist = {hist!r}
rates = {[_num(model.get(f"rate{j + 1}", j + 1)) for j in range(len(hist))]!r}
mapf = jpk / "fmt-jpk-fd_map2x2_extracted.jpk-force-map"
def curve(op):
    if op in ("A", "A-again", "A-otherfit"):
        i = nanite.IndentationGroup(mapf)[0]
    elif op == "B-enum":
        i = nanite.IndentationGroup(mapf)[1]
    elif op == "C-file":
        i = nanite.IndentationGroup(files[0])[0]
    else:
        # a different measurement with the base name of the map file, in another folder
        other = tdir / "other"; other.mkdir(exist_ok=True)
        tgt = other / mapf.name
        if not tgt.exists(): shutil.copy(jpk / "fmt-jpk-fd_map1d_2016-11-07.jpk-force-map", tgt)
        i = nanite.IndentationGroup(tgt)[0]
    i.apply_preprocessing(["compute_tip_position", "correct_force_offset", "correct_tip_offset"])
    if op == "A-otherfit":
        i.fit_model(model_key="hertz_cone")
    else:
        i.fit_model(model_key="hertz_para")
    return i
def dump(h5):
    out = {{}}
    if not h5.exists(): return out
    with h5py.File(h5, "r") as f:
        def visit(name, obj):
            out[name] = ({{k: (v.tolist() if hasattr(v, "tolist") else v) for k, v in obj.attrs.items()}},
                         obj[...].tobytes() if isinstance(obj, h5py.Dataset) else None)
        f.visititems(visit)
    return out
VOL = ("user comment", "user name", "user rate", "user time", "user time str", "nanite version", "h5py version")
h5 = tdir / "c.h5"
bad = []; stored = {{}}
for j, op in enumerate(hist):
    before = dump(h5)
    c = curve(op)
    gid = "%s_%s" % (rio.hash_file(c.path), c.enum)
    try:
        rio.save_hdf5(h5, c, user_rate=rates[j], user_name="user%d" % (j + 1), user_comment="comment%d" % (j + 1)); err = None
    except ValueError as e:
        err = e
    after = dump(h5)
    kind = "a2" if op == "A-otherfit" else op[0].lower()
    paths_expected = None
    if gid in stored and stored[gid] != kind:
        if err is None: bad.append("step %d: different fit accepted" % j)
        if before != after: bad.append("step %d: refused save changed the file" % j)
        continue
    if err is not None: bad.append("step %d: save refused %r" % (j, err)); continue
    for name, (attrs, data) in before.items():
        own = name.startswith("analysis/" + gid)
        a2, d2 = after.get(name, (None, None))
        if a2 is None: bad.append("step %d: entry %s vanished" % (j, name)); continue
        if data != d2: bad.append("step %d: data of %s changed" % (j, name))
        for k, v in attrs.items():
            if own and k in VOL: continue
            if a2.get(k) != v: bad.append("step %d: attribute %s of %s changed" % (j, k, name))
    stored[gid] = kind
    try:
        rr = rio.load(h5)
        if len(rr) != len(stored): bad.append("step %d: %d ratings for %d stored curves" % (j, len(rr), len(stored)))
        mine = [r for r in rr if r["enum"] == c.enum and rio.hash_file(r["data_set"].path) == rio.hash_file(c.path)]
        if len(mine) != 1 or mine[0]["rating"] != rates[j] or mine[0]["name"] != "user%d" % (j + 1) or mine[0]["comment"] != "comment%d" % (j + 1):
            bad.append("step %d: latest user fields not stored: %r" % (j, [(r["name"], r["rating"], r["comment"]) for r in mine]))
    except BaseException as e:
        bad.append("step %d: load raised %r" % (j, e))
shutil.rmtree(tdir, ignore_errors=True)
print({ob["name"]!r}, bad)
if bad:
    print("REPRODUCED"); sys.exit(1)
sys.exit(0)
'''
    return None
