#!/usr/bin/env python3
"""Validate MANIFEST.json and evidence/*.json against the given schemas (uses the tooling venv's jsonschema)."""
import json, glob, sys
import jsonschema
ok = True
jsonschema.validate(json.load(open('/verif/MANIFEST.json')), json.load(open('/root/.vp/MANIFEST.schema.json')))
print('MANIFEST.json valid')
es = json.load(open('/root/.vp/EVIDENCE.schema.json'))
for f in sorted(glob.glob('/verif/evidence/*.json')):
    try:
        jsonschema.validate(json.load(open(f)), es); print(f, 'valid')
    except Exception as e:
        ok = False; print(f, 'INVALID', str(e)[:300])
sys.exit(0 if ok else 1)
