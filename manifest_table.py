"""Source of truth for MANIFEST.json (run gen_manifest.py after editing)."""
SYMX = "bounded symbolic execution of the real source + z3 (symx)"
CHECKS = [
 {"id": "C02", "level": "other",
  "text": "For every parameter vector inside the lmfit bounds and every indentation array of length N<=3 (thorough <=6), z3 shows the unmodified model_func equals the literature formula plus baseline in contact and the baseline off contact (reals); model_doc constants equal the same oracle. Counterexamples are replayed on real numpy.",
  "note": "reals not doubles; tan uninterpreted (shared); oracle /verif/specs.py; bounds N; overflow and the truncated-series-vs-exact-Sneddon clause outside the quick tier",
  "technique": SYMX},
]
_PENDING = "check not built yet in this round (planned in DESIGN.md section 4)"
NOT_APPLICABLE = [
 {"property_id": "C01", "reason": "recovery of generating parameters is a statement about MINPACK/Nelder-Mead convergence (iterative compiled floating point, data-dependent trip count, noise): not encodable for a solver; stubbing the optimiser would assume the conclusion. Optimiser-independent parts are decided under C04/C05/C11/C13."},
] + [{"property_id": f"C{i:02d}", "reason": _PENDING} for i in range(3, 21)]
