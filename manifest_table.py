"""Source of truth for MANIFEST.json (run gen_manifest.py after editing)."""
SYMX = "bounded symbolic execution of the real source + z3 (symx)"
CHECKS = [
 {"id": "C02", "level": "other",
  "text": "For every parameter vector inside the lmfit bounds and every indentation array of length N<=3 (thorough <=6), z3 shows the unmodified model_func equals the literature formula plus baseline in contact and the baseline off contact (reals); model_doc constants equal the same oracle. Counterexamples are replayed on real numpy.",
  "note": "reals not doubles; tan uninterpreted (shared); oracle /verif/specs.py; bounds N; overflow and the truncated-series-vs-exact-Sneddon clause outside the quick tier",
  "technique": SYMX},
 {"id": "C04", "level": "other",
  "text": "For every curve of N=6 symbolic samples (layouts 4+2, 3+3; thorough adds 5+3, 6+0 and all five models), every range [a,b], weighting distance, correction factor k>0 and initial values, z3 shows on every path of the real fit_model/IndentationFitter/residual/model_func chain that fit, residuals, chi-square, fit range, xmin/xmax, reported contact point and the success flag satisfy the stated mutual-consistency relations; the optimiser is an arbitrary-value contract stub. Counterexamples are replayed on the real code with lmfit.minimize patched to return the model's values.",
  "note": "reals not doubles; lmfit.minimize contract stub (vary/bounds/expr honoured by assumption); obj2bytes token; absolute ranges only (relative/plateau: C05, C11); N<=8",
  "technique": SYMX},
 {"id": "C05", "level": "other",
  "text": "For every curve of N=6 (plateau search: 12) symbolic samples, every interval [a,b] in any order incl. a==b and bounds equal to samples, and every per-pass optimiser output, z3 shows that each pass of the real fit()/_fit()/compute_emodulus_vs_mindelta selects exactly the specified closed-interval point set of the requested segment and hands the optimiser k*x on it; relative-cp passes are anchored at the previously reported contact point, the plateau scan grid/optimum/final bound relations hold and the fitter's range attributes are restored.",
  "note": "lmfit.minimize and scipy.signal.filtfilt are contract stubs (arbitrary values); reals; N<=6 (12-14 plateau), num_samples<=3; optimiser convergence outside",
  "technique": SYMX},
 {"id": "C10", "level": "other",
  "text": "z3 compares, on every path of the real fit_model (absolute and 4-pass relative-cp, k symbolic), compute_poc, model/residual wrappers and compute_contact_point_weights, the pre- and post-state of every argument object (all parameter attributes, range/method_kws/step list/option dict, arrays) and shows them term-identical; for the two-step histories call(x); edit x in place; call(x) it shows the same number of optimiser/pipeline runs and term-equal visible state as a twin curve given fresh equal-valued copies (params_initial passed and returned, option dicts, step lists, via apply_preprocessing and via fit_model).",
  "note": "abstract preprocessing steps; lmfit.minimize functional contract stub; N=6; histories of two calls (longer: C03)",
  "technique": SYMX},
 {"id": "C11", "level": "other",
  "text": "z3 proves for all data, parameters and k>0 that the residual _fit hands to the optimiser (abscissa k*x, contact point k*cp) equals the k=1 residual at E*k^p (p=3/2 paraboloid, 2 cone/pyramid), i.e. both least-squares problems coincide up to the stated bijection; on every path of the real _fit the reported contact point/xmin/xmax/fit column are in measured units; and in every optimiser call of an absolute, relative-cp (4 passes) or plateau (n+1) fit the initial contact point is exactly k*cp_user while the caller's object is unchanged.",
  "note": "reals; optimiser equivariance (that MINPACK reaches the mapped minimiser) outside; stubs as C04/C05",
  "technique": SYMX},
 {"id": "C13", "level": "other",
  "text": "User models are quantified over by an uninterpreted, position-sensitive model_func registered through the real NaniteFitModel: z3 shows for every abscissa array of length N<=4 of either orientation that the default wrappers return f(delta) / rev(f(rev(delta))), call f only with approach-ordered data, leave inputs unmodified and that the default residual is (force-model)*weights; for each shipped model_func (NRA) translation covariance, baseline additivity, linear modulus scaling, the continuity bound at contact, monotonicity in depth on (0,R] and zero residual on self-generated data.",
  "note": "reals; user model = uninterpreted function (no side effects); Clifford monotonicity not decided and not claimed; depth beyond tip radius outside",
  "technique": SYMX},
 {"id": "C14", "level": "other", "engine": "crosshair",
  "text": "CrossHair/z3 executes the real autosort, check_order and apply on a list of L pairwise different solver-chosen step indices, one condition per length, each run to 'Confirmed over all paths' (L<=5 quick, L<=6 = all 1957 ordered selections thorough): closed selections are sorted into a permutation satisfying an independent order predicate and check_order, idempotently, valid orders unchanged; check_order passes iff the predicate holds; apply accepts iff required steps occur earlier; available() is valid; unknown identifiers (symbolic str) raise KeyError. Counterexamples are replayed on the real module.",
  "note": "step bodies are no-ops for the apply condition; six shipped steps; unknown identifiers up to 3 characters; CrossHair's path exhaustion is trusted",
  "technique": "CrossHair symbolic execution of the real functions + z3, confirmed over all paths"},
]
_PENDING = "check not built yet in this round (planned in DESIGN.md section 4)"
NOT_APPLICABLE = [
 {"property_id": "C01", "reason": "recovery of generating parameters is a statement about MINPACK/Nelder-Mead convergence (iterative compiled floating point, data-dependent trip count, noise): not encodable for a solver; stubbing the optimiser would assume the conclusion. Optimiser-independent parts are decided under C04/C05/C11/C13."},
] + [{"property_id": f"C{i:02d}", "reason": _PENDING} for i in range(3, 21) if i not in (4, 5, 10, 11, 13, 14)]
