"""Independent transcription of the published contact-mechanics formulas
(the oracle of C02/C04/C11/C13).  Written against an abstract `ops`
namespace so the same text serves the solver (symx scalars, exact rationals)
and the replay scripts (floats).

Literature:
  Hertz/Sneddon paraboloid  F = 4/3 E/(1-nu^2) sqrt(R) d^(3/2)
  Sneddon cone              F = 2 tan(alpha)/pi E/(1-nu^2) d^2
  Bilodeau 3-sided pyramid  F = 0.8887 tan(alpha) E/(1-nu^2) d^2
  truncated Sneddon sphere  F = 4/3 E/(1-nu^2) sqrt(R) d^(3/2) *
        (1 - 1/10 x - 1/840 x^2 + 11/15120 x^3 + 1357/6652800 x^4), x = d/R
  Clifford 2009 layer       F = 4/3 E* sqrt(R) d^(3/2),
        E* = E_L + (E_S-E_L) P xi^n/(1+P xi^n),
        xi = sqrt(R d)/t (E_L/E_S)^m (1-B_S nu_S^2)/(1-B_L nu_L^2),
        P=2.25 n=1.5 m=2/3 B_S=0.22 B_L=1.92
"""
import math
from fractions import Fraction as Fr

SERIES = [Fr(1), Fr(-1, 10), Fr(-1, 840), Fr(11, 15120), Fr(1357, 6652800)]
PYR = Fr(8887, 10000)
CLIFFORD = {"P": Fr(9, 4), "n": Fr(3, 2), "m": Fr(2, 3), "B_S": Fr(22, 100),
            "B_L": Fr(192, 100)}
POWER = {"hertz_para": Fr(3, 2), "hertz_cone": Fr(2), "hertz_pyr3s": Fr(2),
         "sneddon_spher_approx": None, "power_layer_clifford_2009": None}
MODEL_FILES = {
    "hertz_para": "model_hertz_paraboloidal",
    "hertz_cone": "model_conical_indenter",
    "hertz_pyr3s": "model_hertz_three_sided_pyramid",
    "sneddon_spher_approx": "model_sneddon_spherical_approximation",
    "power_layer_clifford_2009": "model_power_layer_clifford_2009",
}
PARAMS = {
    "hertz_para": ["E", "R", "nu", "contact_point", "baseline"],
    "hertz_cone": ["E", "alpha", "nu", "contact_point", "baseline"],
    "hertz_pyr3s": ["E", "alpha", "nu", "contact_point", "baseline"],
    "sneddon_spher_approx": ["E", "R", "nu", "contact_point", "baseline"],
    "power_layer_clifford_2009": ["E_S", "E_L", "R", "nu_S", "nu_L", "t",
                                  "contact_point", "baseline"],
}


class FloatOps:
    pi = math.pi

    @staticmethod
    def sqrt(x): return math.sqrt(x)
    @staticmethod
    def tan(x): return math.tan(x)
    @staticmethod
    def pow(x, e): return float(x) ** float(e)
    @staticmethod
    def c(fr): return float(fr)


def contact_force(ops, key, d, p):
    """Force minus baseline at indentation depth d > 0 (d = cp - delta)."""
    c = ops.c
    if key == "hertz_para":
        return c(Fr(4, 3)) * p["E"] / (1 - p["nu"] * p["nu"]) * ops.sqrt(p["R"]) * ops.pow(d, Fr(3, 2))
    if key == "hertz_cone":
        return 2 * ops.tan(p["alpha"] * ops.pi / 180) / ops.pi * p["E"] / (1 - p["nu"] * p["nu"]) * (d * d)
    if key == "hertz_pyr3s":
        return c(PYR) * ops.tan(p["alpha"] * ops.pi / 180) * p["E"] / (1 - p["nu"] * p["nu"]) * (d * d)
    if key == "sneddon_spher_approx":
        x = d / p["R"]
        ser = c(SERIES[0]) + c(SERIES[1]) * x + c(SERIES[2]) * x * x \
            + c(SERIES[3]) * x * x * x + c(SERIES[4]) * x * x * x * x
        return c(Fr(4, 3)) * p["E"] / (1 - p["nu"] * p["nu"]) * ops.sqrt(p["R"]) * ops.pow(d, Fr(3, 2)) * ser
    if key == "power_layer_clifford_2009":
        k = CLIFFORD
        a = ops.sqrt(p["R"]) * ops.sqrt(d)
        xi = a / p["t"] * ops.pow(p["E_L"] / p["E_S"], k["m"]) \
            * (1 - c(k["B_S"]) * p["nu_S"] * p["nu_S"]) / (1 - c(k["B_L"]) * p["nu_L"] * p["nu_L"])
        pxn = c(k["P"]) * ops.pow(xi, k["n"])
        estar = p["E_L"] + (p["E_S"] - p["E_L"]) * pxn / (1 + pxn)
        return c(Fr(4, 3)) * estar * ops.sqrt(p["R"]) * ops.pow(d, Fr(3, 2))
    raise KeyError(key)


def force_float(key, delta, p):
    """Float evaluation for the replay scripts (list in, list out)."""
    out = []
    for x in delta:
        d = p["contact_point"] - x
        if d > 0:
            out.append(contact_force(FloatOps, key, d, p) + p["baseline"])
        else:
            out.append(p["baseline"])
    return out


# ---------------------------------------------------------------------------
# documented constants (model_doc) -- used by C02's doc-consistency obligation
import re as _re

_FRAC = _re.compile(r"\\frac\{(\d+)\}\{(\d+)\}")


def doc_constants(doc):
    """Numeric constants of the documented formula (first math block)."""
    m = _re.search(r"\.\. math::\n(.*?)\n\s*Parameters", doc, _re.S)
    block = m.group(1)
    fr = [Fr(int(a), int(b)) for a, b in _FRAC.findall(block)]
    dec = [Fr(x) for x in _re.findall(r"(?<![\w.{])(\d+\.\d+)", block)]
    return block, fr, dec


def doc_checks(key, doc):
    """List of (name, holds, info) comparing model_doc with the oracle."""
    block, fr, dec = doc_constants(doc)
    out = []
    if key == "hertz_para":
        out.append(("doc:4/3", Fr(4, 3) in fr, None))
        out.append(("doc:exponent 3/2", "^{3/2}" in block, None))
    elif key == "hertz_cone":
        out.append(("doc:2tan/pi", "\\frac{2\\tan\\alpha}{\\pi}" in block, None))
        out.append(("doc:exponent 2", "\\delta^2" in block, None))
    elif key == "hertz_pyr3s":
        out.append(("doc:bilodeau-coefficient", dec == [PYR],
                    {"documented": [str(d) for d in dec], "oracle": str(PYR)}))
        out.append(("doc:exponent 2", "\\delta^2" in block, None))
    elif key == "sneddon_spher_approx":
        want = [Fr(4, 3)] + [abs(c) for c in SERIES[1:]]
        out.append(("doc:series-coefficients", fr == want, {"documented": [str(f) for f in fr]}))
        signs = _re.findall(r"([+-])\s*\\frac\{\d+\}\{\d+\}\s*(?:\\frac|\\left)", block)
        out.append(("doc:series-signs", signs == ["-", "-", "+", "+"], {"signs": signs}))
    else:
        k = CLIFFORD
        vals = {"P": _re.search(r"P=([\d.]+)", doc), "n": _re.search(r"n=([\d.]+)", doc),
                "B_S": _re.search(r"B_\\mathrm\{S\}=([\d.]+)", doc),
                "B_L": _re.search(r"B_\\mathrm\{L\}=([\d.]+)", doc)}
        for name, mm in vals.items():
            out.append((f"doc:{name}", mm is not None and Fr(mm.group(1)) == k[name], None))
        out.append(("doc:m", "m=2/3" in doc, None))
        out.append(("doc:4/3", Fr(4, 3) in fr, None))
    return out
