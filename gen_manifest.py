#!/usr/bin/env python3
"""Regenerate MANIFEST.json from checks.json-like table below (keeps it valid)."""
import json, os
HERE = os.path.dirname(os.path.abspath(__file__))
BASE = "cd /repo && /venv/bin/python -m pytest -ra -q -p no:cacheprovider --timeout=900 --continue-on-collection-errors"
from manifest_table import CHECKS, NOT_APPLICABLE

checks = []
for c in CHECKS:
    pid = c["id"]
    checks.append({
        "property_id": pid,
        "quick_cmd": f"./check {pid} quick",
        "thorough_cmd": f"./check {pid} thorough",
        "evidence_file": f"/verif/evidence/{pid}.json",
        "replay_cmd_template": "./check --replay {path}",
        "engine": c.get("engine", "symx"),
        "level_claimed": {"category": c["level"], "text": c["text"], "design_ref": f"DESIGN.md section 4, {pid}"},
        "level_note": c["note"],
        "technique": c["technique"],
    })
man = {
    "version": 1,
    "setup_cmd": "./setup.sh",
    "hooks": {"guard": "NANITE_VERIF", "enable": "no source hooks: the loader analyses the unmodified source of /repo/src/nanite at check time",
              "baseline_off_cmd": BASE, "source_commits": [], "add_only": True},
    "engines": [
        {"name": "symx", "path": "/verif/symx", "serves_properties": [c["id"] for c in CHECKS if c.get("engine", "symx") == "symx"],
         "kind_free_text": "re-execution dynamic symbolic execution of nanite's unmodified Python source under redirected imports (numpy->symnp over z3 reals, lmfit/scipy contract stubs); obligations discharged by z3 5.1; counterexamples replayed on the real code"},
        {"name": "crosshair", "path": "/verif/xh", "serves_properties": [c["id"] for c in CHECKS if "crosshair" in c.get("engine", "")],
         "kind_free_text": "CrossHair 0.0.110 symbolic execution of pure-Python units with z3"},
    ],
    "checks": checks,
    "not_applicable": NOT_APPLICABLE,
    "notes": "exit 0 held / 1 VIOLATION / 2 inconclusive or harness error. known_findings.json lists recorded defects and fix commits.",
}
with open(os.path.join(HERE, "MANIFEST.json"), "w") as fh:
    json.dump(man, fh, indent=1)
print("MANIFEST.json written:", len(checks), "checks,", len(NOT_APPLICABLE), "not applicable")
