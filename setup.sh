#!/bin/bash
# Build the verification venv offline: overlay on /venv (nanite deps) plus
# z3-solver and crosshair-tool from the local wheelhouse.  Idempotent.
set -e
HERE="$(cd "$(dirname "$0")" && pwd)"
VENV="$HERE/.venv"
WHEELS=/opt/veriftools/wheels
export PIP_NO_INDEX=1
if [ ! -x "$VENV/bin/python" ] || ! "$VENV/bin/python" -c "import z3, crosshair, numpy, lmfit, cvc5" >/dev/null 2>&1; then
    rm -rf "$VENV"
    /venv/bin/python -m venv "$VENV"
    SP="$("$VENV/bin/python" -c 'import site; print(site.getsitepackages()[0])')"
    echo "import site; site.addsitedir('/venv/lib/python3.12/site-packages')" > "$SP/verif_overlay.pth"
    "$VENV/bin/pip" install -q --no-index --find-links "$WHEELS" z3-solver crosshair-tool cvc5 >/dev/null
    "$VENV/bin/python" -c "import z3, crosshair, numpy, lmfit; print('verif venv ready: z3', z3.get_version_string())"
fi
