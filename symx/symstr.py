"""Symbolic leaves for the hash pre-image (C12): strings, rendered numbers,
opaque arrays.  A leaf is a real `str`/`bytes` object carrying a unique
private-use placeholder character, so the *unmodified* obj2bytes runs
natively (`b"".join`, `.encode`, `sorted(obj.items())`, `repr`); the
resulting bytes are parsed back into a z3 string term.
"""
import builtins

import z3

_BASE = 0xE000


class Registry:
    def __init__(self):
        self.terms = []      # index -> z3 String term
        self.constraints = []
        self.order = []       # dict-key order assumptions (kept apart)

    def new(self, term):
        i = len(self.terms)
        if i > 0x18FF:
            raise RuntimeError("too many placeholders")
        self.terms.append(term)
        return chr(_BASE + i)

    def parse(self, data):
        """bytes/str with placeholders -> z3 string term."""
        if isinstance(data, (bytes, bytearray)):
            text = bytes(data).decode("utf-8")
        else:
            text = data
        parts = []
        lit = []
        for ch in text:
            o = ord(ch)
            if _BASE <= o < _BASE + len(self.terms):
                if lit:
                    parts.append(z3.StringVal("".join(lit)))
                    lit = []
                parts.append(self.terms[o - _BASE])
            else:
                lit.append(ch)
        if lit:
            parts.append(z3.StringVal("".join(lit)))
        if not parts:
            return z3.StringVal("")
        if len(parts) == 1:
            return parts[0]
        return z3.Concat(*parts)


REG = [None]


def reg():
    return REG[0]


def reset():
    REG[0] = Registry()
    return REG[0]


class StrLeaf(str):
    """Symbolic string (restricted alphabet: no quote/backslash/control)."""
    def __new__(cls, term, kind="str"):
        o = str.__new__(cls, reg().new(term))
        o.term = term
        o.kind = kind
        return o

    def encode(self, *a, **k):
        return str(self).encode("utf-8")

    def __repr__(self):
        # Python's repr of a string over the restricted alphabet is 'text'
        return StrLeaf(z3.Concat(z3.StringVal("'"), self.term, z3.StringVal("'")), "repr")

    def __hash__(self):
        return str.__hash__(self)


ALPHA = z3.Union(z3.Range("a", "z"), z3.Range("0", "9"), z3.Re("_"), z3.Re(" "),
                 z3.Re("."), z3.Re(","), z3.Re("["), z3.Re("]"), z3.Re("-"))


def new_str(name, maxlen=3):
    v = z3.String(name)
    r = reg()
    r.constraints.append(z3.InRe(v, z3.Star(ALPHA)))
    r.constraints.append(z3.Length(v) <= maxlen)
    return StrLeaf(v)


# canonical Python float reprs in plain decimal notation with <=3 integer and
# <=3 fractional digits (bound of the claim; solvers time out beyond)
_D = z3.Range("0", "9")
_D1 = z3.Range("1", "9")
#: extra digits allowed before / after the point (1 + k digits each side)
NUM_DIGITS = [2]


def float_re(k):
    return z3.Concat(
        z3.Option(z3.Re("-")),
        z3.Union(z3.Re("0"), z3.Concat(_D1, z3.Loop(_D, 0, k))),
        z3.Re("."),
        z3.Union(z3.Re("0"), z3.Concat(z3.Loop(_D, 0, k), _D1)))


class NumLeaf:
    """Symbolic finite number; str(float(x)) is an injective function into
    the canonical-repr language (two leaves render equal iff values equal)."""
    def __init__(self, name):
        self.name = name
        self.repr_term = z3.String("repr_" + name)
        reg().constraints.append(z3.InRe(self.repr_term, float_re(NUM_DIGITS[0])))
        # -0.0 and 0.0 render differently in Python but compare equal; exclude -0.0
        reg().constraints.append(self.repr_term != z3.StringVal("-0.0"))

    def differs_from(self, other):
        return self.repr_term != other.repr_term

    def equals(self, other):
        return self.repr_term == other.repr_term

    def __float__(self):
        raise TypeError("symbolic number outside the shimmed builtins")


class BoolLeaf:
    def __init__(self, name):
        self.b = z3.Bool(name)
        self.repr_term = z3.If(self.b, z3.StringVal("1.0"), z3.StringVal("0.0"))


class ArrLeaf:
    """Opaque ndarray of n float64 samples: tobytes() is an arbitrary string
    of fixed length (one character per byte)."""
    def __init__(self, name, n):
        self.n = n
        self.shape = (n,)
        self.bytes_term = z3.String("bytes_" + name)
        reg().constraints.append(z3.Length(self.bytes_term) == 8 * n)
        self.dtype = _DT()
        self.size = n
        self.flags = None

    def tobytes(self):
        return StrLeaf(self.bytes_term, "bytes").encode()

    def setflags(self, write=None):
        pass

    def __len__(self):
        return self.n


class _DT:
    str = "<f8"


def s_float(x=0.0):
    if isinstance(x, (NumLeaf, BoolLeaf)):
        return _Rendered(x)
    return builtins.float(x)


class _Rendered:
    """float(leaf): only str() of it is ever taken by obj2bytes."""
    def __init__(self, leaf):
        self.leaf = leaf

    def __str__(self):
        return StrLeaf(self.leaf.repr_term, "numrepr")

    __repr__ = __str__


def s_str(x=""):
    if isinstance(x, _Rendered):
        return x.__str__()
    if isinstance(x, StrLeaf):
        return x
    return builtins.str(x)


def s_repr(x):
    if isinstance(x, StrLeaf):
        return x.__repr__()
    return builtins.repr(x)


def make_isinstance(np_ndarray, np_bool):
    def is_cls(c, *names):
        return c in names

    def s_isinstance(obj, cls):
        classes = cls if builtins.isinstance(cls, tuple) else (cls,)
        if builtins.isinstance(obj, StrLeaf):
            return any(c is s_str or c is str for c in classes)
        if builtins.isinstance(obj, NumLeaf):
            return any(c is s_float or c is float or c is int for c in classes)
        if builtins.isinstance(obj, BoolLeaf):
            return any(c is bool or c is np_bool for c in classes)
        if builtins.isinstance(obj, ArrLeaf):
            return any(c is np_ndarray for c in classes)
        real = []
        for c in classes:
            nm = getattr(c, "__name__", "")
            if nm == "s_str":
                real.append(str)
            elif nm == "s_float":
                real.append(float)
            elif nm == "s_int":
                real.append(int)
            elif builtins.isinstance(c, type):
                real.append(c)
        return builtins.isinstance(obj, tuple(real)) if real else False
    return s_isinstance
