"""Check driver: explores every task of a harness path by path (re-execution
DSE, 16 worker processes), replays counterexamples against the real code,
matches them with known_findings.json, writes the evidence file and sets the
exit status (0 held / 1 VIOLATION / 2 inconclusive or harness error).
"""
import concurrent.futures as cf
import hashlib
import importlib
import json
import multiprocessing as mp
import os
import subprocess
import sys
import time
import traceback
from fractions import Fraction

VERIF = os.path.dirname(os.path.dirname(os.path.abspath(__file__)))
REPO = os.environ.get("NANITE_REPO", "/repo")
REAL_PY = "/venv/bin/python"


# ---------------------------------------------------------------------------
# worker side


def _jsonable(x):
    if isinstance(x, Fraction):
        if x.denominator == 1:
            return int(x)
        return {"frac": f"{x.numerator}/{x.denominator}", "float": float(x)}
    if isinstance(x, dict):
        return {str(k): _jsonable(v) for k, v in x.items()}
    if isinstance(x, (list, tuple)):
        return [_jsonable(v) for v in x]
    if isinstance(x, float):
        if x != x:
            return "nan"
        if x in (float("inf"), float("-inf")):
            return str(x)
        return x
    if isinstance(x, (int, str, bool)) or x is None:
        return x
    return repr(x)


_ENTERED = set()


def _install_monitor():
    try:
        mon = sys.monitoring
    except AttributeError:
        return
    tool = 3
    try:
        mon.use_tool_id(tool, "symx-cov")
    except ValueError:
        return
    src = os.path.join(REPO, "src") + os.sep

    def on_start(code, off):
        fn = code.co_filename
        if fn.startswith(src):
            _ENTERED.add(f"{os.path.relpath(fn, src)}:{code.co_qualname}")
        return mon.DISABLE

    mon.register_callback(tool, mon.events.PY_START, on_start)
    mon.set_events(tool, mon.events.PY_START)


def run_path(modname, task, prefix):
    """Execute one path of one task in this (worker) process."""
    from . import core
    t0 = time.time()
    if not getattr(run_path, "_mon", False):
        _install_monitor()
        run_path._mon = True
    mod = importlib.import_module(modname)
    ctx = core.Ctx(prefix, timeout_ms=task.get("timeout_ms", 60000),
                   max_decisions=task.get("max_decisions", 600))
    core.set_ctx(ctx)
    status, err, info = "done", None, None
    try:
        info = getattr(mod, task["fn"])(**task.get("args", {}))
    except core.PathAbort as e:
        status, err = e.kind, e.msg
    except core.Unsupported as e:
        status, err = "unsupported", traceback.format_exc(limit=12)
    except RecursionError:
        status, err = "error", "RecursionError"
    except Exception:
        status, err = "error", traceback.format_exc(limit=14)
    finally:
        core.set_ctx(None)
    world = getattr(mod, "LAST_WORLD", None)
    hashes = dict(world.hashes) if world is not None else {}
    return {
        "task": task["name"], "prefix": list(prefix),
        "decisions": [(bool(a), b) for a, b in ctx.decisions],
        "status": status, "err": err,
        "obligations": [_jsonable_ob(o) for o in ctx.obligations],
        "witnesses": dict(ctx.witnesses),
        "queries": dict(ctx.queries), "solver_s": ctx.solver_s,
        "unknown_feasibility": ctx.unknown_feasibility,
        "notes": ctx.notes[:20], "info": _jsonable(info),
        "counters": dict(ctx.counters),
        "wall": time.time() - t0, "hashes": hashes,
        "entered": sorted(_ENTERED),
    }


def _jsonable_ob(o):
    out = dict(o)
    if "model" in out:
        out["model_raw"] = {k: _enc(v) for k, v in out["model"].items()}
        out["model"] = _jsonable(out["model"])
    if "info" in out:
        out["info"] = _jsonable(out["info"])
    return out


def _enc(v):
    if isinstance(v, Fraction):
        return ["F", v.numerator, v.denominator]
    if isinstance(v, bool):
        return ["B", v]
    if isinstance(v, int):
        return ["I", v]
    if isinstance(v, str):
        return ["S", v]
    return ["R", repr(v)]


def dec_model(raw):
    out = {}
    for k, v in raw.items():
        if v[0] == "F":
            out[k] = Fraction(v[1], v[2])
        else:
            out[k] = v[1]
    return out


def _run_pre(modname, tier, seed):
    mod = importlib.import_module(modname)
    t0 = time.time()
    try:
        res = mod.precheck(tier, seed)
        return {"ok": True, "res": _jsonable(res), "wall": time.time() - t0}
    except Exception:
        return {"ok": False, "err": traceback.format_exc(limit=14), "wall": time.time() - t0}


# ---------------------------------------------------------------------------
# parent side


def load_known():
    p = os.path.join(VERIF, "known_findings.json")
    if not os.path.exists(p):
        return {"known": [], "fixed": []}
    with open(p) as fh:
        return json.load(fh)


def run_replay(script_path, timeout=600):
    """Replay script contract: exit 1 + 'REPRODUCED' = the violation shows on
    the real code; exit 0 = it does not; anything else = replay error."""
    env = dict(os.environ)
    env.pop("PYTHONPATH", None)
    env["PYTHONWARNINGS"] = "ignore"
    if REPO != "/repo":
        # development runs against a scratch tree (NANITE_REPO): replay there too
        env["PYTHONPATH"] = os.path.join(REPO, "src")
    try:
        p = subprocess.run([REAL_PY, script_path], capture_output=True, text=True,
                           timeout=timeout, env=env, cwd=REPO)
    except subprocess.TimeoutExpired:
        return "error", "replay timeout"
    out = (p.stdout + p.stderr)[-2000:]
    if p.returncode == 1 and "REPRODUCED" in p.stdout:
        return "reproduced", out
    if p.returncode == 0:
        return "not-reproduced", out
    return "error", out


def explore(modname, tasks, workers, deadline, log):
    """Close the path tree of every task.  Returns per-task aggregates."""
    ctxm = mp.get_context("spawn")
    agg = {t["name"]: {"task": t, "paths": 0, "status": {}, "obligations": [],
                       "witnesses": {}, "queries": {"sat": 0, "unsat": 0, "unknown": 0},
                       "solver_s": 0.0, "unknown_feasibility": 0, "errors": [],
                       "truncated": False, "infos": [], "wall": 0.0, "counters": {}}
           for t in tasks}
    hashes = {}
    entered = set()
    pending = {}
    with cf.ProcessPoolExecutor(max_workers=workers, mp_context=ctxm,
                                initializer=_winit) as ex:
        def submit(task, prefix):
            a = agg[task["name"]]
            if a["paths"] + sum(1 for f, (tn, _) in pending.items() if tn == task["name"]) \
                    >= task.get("max_paths", 4000):
                a["truncated"] = True
                return
            f = ex.submit(run_path, modname, task, prefix)
            pending[f] = (task["name"], prefix)

        for t in tasks:
            submit(t, [])
        while pending:
            done, _ = cf.wait(list(pending), timeout=5, return_when=cf.FIRST_COMPLETED)
            if time.time() > deadline:
                for f in pending:
                    f.cancel()
                for tn, _ in pending.values():
                    agg[tn]["truncated"] = True
                log("deadline reached with paths pending: inconclusive; stuck: "
                    + ", ".join(sorted({tn for tn, _ in pending.values()}))[:400])
                procs = list(getattr(ex, "_processes", {}).values())
                ex.shutdown(wait=False, cancel_futures=True)
                for pr in procs:
                    try:
                        pr.kill()
                    except Exception:
                        pass
                pending.clear()
                break
            for f in done:
                tn, prefix = pending.pop(f)
                a = agg[tn]
                try:
                    r = f.result()
                except Exception as e:
                    a["errors"].append(f"worker failure: {e!r}")
                    a["status"]["error"] = a["status"].get("error", 0) + 1
                    continue
                a["paths"] += 1
                a["wall"] += r["wall"]
                a["status"][r["status"]] = a["status"].get(r["status"], 0) + 1
                if r["status"] in ("error", "unsupported", "bound"):
                    a["errors"].append(f"[{r['status']}] prefix={prefix}: {r['err']}")
                for o in r["obligations"]:
                    o["prefix"] = prefix
                    a["obligations"].append(o)
                for k, v in r["witnesses"].items():
                    if a["witnesses"].get(k) != "sat":
                        a["witnesses"][k] = v
                for k, v in r["queries"].items():
                    a["queries"][k] += v
                for k, v in r["counters"].items():
                    a["counters"][k] = a["counters"].get(k, 0) + v
                a["solver_s"] += r["solver_s"]
                a["unknown_feasibility"] += r["unknown_feasibility"]
                if r["info"] is not None and len(a["infos"]) < 6:
                    a["infos"].append(r["info"])
                hashes.update(r["hashes"])
                entered.update(r["entered"])
                dec = r["decisions"]
                for i in range(len(prefix), len(dec)):
                    if dec[i][1]:
                        submit(a["task"], [d[0] for d in dec[:i]] + [not dec[i][0]])
    return agg, hashes, entered


def _winit():
    os.environ.setdefault("PYTHONHASHSEED", "0")
    sys.setrecursionlimit(10000)
    import warnings
    warnings.filterwarnings("ignore")


def main(prop_id, tier):
    t_start = time.time()
    seed = int(os.environ.get("VERIF_SEED", "0") or 0)
    modname = f"harness.{prop_id.lower()}"
    sys.path.insert(0, VERIF)
    mod = importlib.import_module(modname)
    if getattr(mod, "ENGINE", "symx") == "crosshair":
        from xh import driver as xhd
        return xhd.main(prop_id, tier, mod)
    workers = int(os.environ.get("VERIF_WORKERS", "16"))
    budget = mod.BUDGET_S[tier] if hasattr(mod, "BUDGET_S") else {"quick": 900, "thorough": 3600}[tier]
    deadline = t_start + budget
    lines = []

    def log(msg):
        print(f"[{prop_id} {tier} +{time.time() - t_start:6.1f}s] {msg}", flush=True)

    inconclusive = []
    # 1. shim validation / concrete pre-checks
    pre = None
    if hasattr(mod, "precheck"):
        ctxm = mp.get_context("spawn")
        with cf.ProcessPoolExecutor(max_workers=1, mp_context=ctxm, initializer=_winit) as ex:
            pre = ex.submit(_run_pre, modname, tier, seed).result()
        if not pre["ok"]:
            log("shim validation FAILED (harness error):\n" + pre["err"])
            inconclusive.append("shim validation failed")
        else:
            log(f"shim validation ok: {pre['res']}")
    # 2. symbolic exploration
    tasks = mod.tasks(tier)
    for t in tasks:
        t.setdefault("timeout_ms", mod.QUERY_TIMEOUT_MS[tier] if hasattr(mod, "QUERY_TIMEOUT_MS")
                     else {"quick": 60000, "thorough": 300000}[tier])
    agg, hashes, entered = explore(modname, tasks, workers, deadline, log)

    known = load_known()
    known_keys = {(k["property"], k["key"]): k for k in known.get("known", [])}
    violations = []
    known_hits = {}
    n_ob = n_dis = 0
    q = {"sat": 0, "unsat": 0, "unknown": 0}
    solver_s = 0.0
    paths = 0
    samples = []
    witness_report = {}
    replay_dir = os.path.join(VERIF, "replays", prop_id)
    os.makedirs(replay_dir, exist_ok=True)
    replays_done = 0
    replay_cache = {}
    replay_tries = {}
    for tn, a in agg.items():
        paths += a["paths"]
        solver_s += a["solver_s"]
        for k in q:
            q[k] += a["queries"][k]
        if a["truncated"]:
            inconclusive.append(f"{tn}: path tree not closed (max_paths/deadline)")
        for e in a["errors"][:3]:
            log(f"{tn}: {e}")
        if a["errors"]:
            inconclusive.append(f"{tn}: {len(a['errors'])} path(s) ended in error/unsupported/bound")
        for w in a["task"].get("witnesses", []):
            st = a["witnesses"].get(w)
            witness_report[f"{tn}:{w}"] = st or "not reached"
            if st != "sat":
                inconclusive.append(f"{tn}: reachability witness '{w}' not reached ({st})")
        if a["unknown_feasibility"]:
            log(f"{tn}: {a['unknown_feasibility']} feasibility queries were unknown (both sides explored)")
        for o in a["obligations"]:
            n_ob += 1
            if o["result"] == "unsat":
                n_dis += 1
                if len(samples) < 8 and not o.get("trivial"):
                    samples.append({"task": tn, "obligation": o["name"], "result": "unsat",
                                    "path_prefix": o["prefix"], "solver_s": round(o.get("time", 0), 3)})
            elif o["result"] == "unknown":
                inconclusive.append(f"{tn}: obligation {o['name']} unknown/timeout")
            else:
                # counterexample: replay on the real code first
                key = mod.classify(a["task"], o) if hasattr(mod, "classify") else o["name"]
                ck = (tn, key)
                if ck in replay_cache and (replay_cache[ck][0] == "reproduced"
                                           or replay_tries.get(ck, 0) >= 2):
                    st, out, path = replay_cache[ck]
                else:
                    script = mod.replay(a["task"], o, dec_model(o.get("model_raw", {})))
                    if script is None:
                        st, out, path = "error", "no replay available", None
                    else:
                        fname = "%s_%s.py" % (tn, hashlib.sha1(key.encode()).hexdigest()[:8])
                        fname = "".join(c if c.isalnum() or c in "._-" else "_" for c in fname)
                        path = os.path.join(replay_dir, fname)
                        with open(path, "w") as fh:
                            fh.write(script)
                        st, out = run_replay(path)
                        replay_tries[ck] = replay_tries.get(ck, 0) + 1
                        replays_done += 1
                    replay_cache[ck] = (st, out, path)
                if st == "reproduced":
                    kk = (prop_id, key)
                    if kk in known_keys:
                        known_hits.setdefault(key, {"what": known_keys[kk]["what"], "n": 0,
                                                    "replay": path})
                        known_hits[key]["n"] += 1
                        n_dis += 0
                    else:
                        violations.append({"task": tn, "obligation": o["name"], "key": key,
                                           "replay": path, "model": o.get("model"),
                                           "output": out[-400:]})
                elif st == "not-reproduced":
                    log(f"SPURIOUS counterexample for {tn}/{o['name']} (model does not "
                        f"reproduce on the real code): {o.get('model')}\n{out[-600:]}")
                    inconclusive.append(f"{tn}: spurious counterexample for {o['name']}")
                else:
                    log(f"replay error for {tn}/{o['name']}: {out[-600:]}")
                    inconclusive.append(f"{tn}: replay error for {o['name']}")
        for inf in a["infos"][:2]:
            if len(samples) < 12:
                samples.append({"task": tn, "path_info": inf})

    # de-duplicate violations by key
    seen = set()
    uniq = []
    for v in violations:
        if v["key"] in seen:
            continue
        seen.add(v["key"])
        uniq.append(v)
    for key, kh in known_hits.items():
        print(f"KNOWN-FINDING: property={prop_id} {kh['what']} [key={key}; "
              f"{kh['n']} counterexample(s); replay={kh['replay']}]", flush=True)
    for v in uniq:
        print(f"VIOLATION property={prop_id} replay={v['replay']}", flush=True)
        log(f"  violated: {v['task']}/{v['obligation']} key={v['key']} model={v['model']}")

    wall = time.time() - t_start
    level = getattr(mod, "LEVEL", "other")
    n_known = sum(k["n"] for k in known_hits.values())
    cov = {
        "explanation": mod.EXPLANATION,
        "obligations": n_ob,
        "discharged": n_dis,
        "counterexamples_known_findings": n_known,
        "counterexamples_new": len(violations),
        "paths": paths,
        "tasks": len(tasks),
        "solver_queries": q,
        "solver_time_s": round(solver_s, 2),
        "exhaustive": not inconclusive and all(not a["truncated"] for a in agg.values()),
        "bounds": mod.bounds(tier) if hasattr(mod, "bounds") else {},
        "sources_encoded_sha256": dict(sorted(hashes.items())),
        "functions_entered": sorted(entered),
        "reachability_witnesses": witness_report,
        "shim_validation": pre["res"] if pre and pre["ok"] else (pre or {}).get("err"),
        "per_task": {tn: {"paths": a["paths"], "status": a["status"],
                          "obligations": len(a["obligations"]),
                          "queries": a["queries"], "solver_s": round(a["solver_s"], 2),
                          "counters": a["counters"]}
                     for tn, a in agg.items()},
        "samples": samples or [{"note": "no non-trivial obligation recorded"}],
        "replays_run": replays_done,
        "known_findings_hit": {k: v["n"] for k, v in known_hits.items()},
        "inconclusive": inconclusive,
        "solver": "z3 %s (python wheel), fresh solver per query, qfnra-nlsat for NRA" % _z3v(),
    }
    if level == "model_checking":
        cov["states"] = max(1, paths)
        cov["transitions"] = max(1, sum(a["counters"].get("transitions", 0) for a in agg.values()))
        cov["traces_validated_against_impl"] = (pre or {}).get("res", {}).get("traces_validated", 0) \
            if pre and pre["ok"] and isinstance(pre["res"], dict) else 0
    ev = {
        "property_id": prop_id, "tier": tier, "seed": seed, "level": level,
        "coverage": cov,
        "assumptions": list(mod.ASSUMPTIONS),
        "wall_s": round(wall, 2),
        "violations": len(uniq),
    }
    os.makedirs(os.path.join(VERIF, "evidence"), exist_ok=True)
    with open(os.path.join(VERIF, "evidence", f"{prop_id}.json"), "w") as fh:
        json.dump(ev, fh, indent=1, sort_keys=False)
    log(f"paths={paths} obligations={n_ob} discharged={n_dis} known={n_known} "
        f"new_violations={len(uniq)} queries={q} solver={solver_s:.1f}s wall={wall:.1f}s")
    if uniq:
        return 1
    if inconclusive:
        for m in inconclusive[:10]:
            log("INCONCLUSIVE: " + m)
        return 2
    return 0


def _z3v():
    try:
        import z3
        return z3.get_version_string()
    except Exception:
        return "?"


if __name__ == "__main__":
    sys.exit(main(sys.argv[1], sys.argv[2]))
