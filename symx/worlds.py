"""Standard module universes for the harnesses."""
import builtins
import types
from fractions import Fraction

from . import core, symnp, symlmfit, loader
from .core import SymReal, SymInt, SymBool, is_sym


def s_float(x=0.0):
    if hasattr(x, "__symx_value__"):
        x = x.__symx_value__()
    if isinstance(x, SymReal):
        return x
    if isinstance(x, (SymInt, SymBool)):
        return core.mk_real(core.rv(x))
    if isinstance(x, Fraction):
        return x
    if isinstance(x, symnp.SymArr):
        return s_float(x.item())
    return float(x)


def s_int(x=0, *a):
    if hasattr(x, "__symx_value__"):
        x = x.__symx_value__()
    if isinstance(x, (SymReal, SymInt)):
        return core.sym_trunc(x)
    if isinstance(x, SymBool):
        return core.mk_int(core.iv(x))
    if isinstance(x, symnp.SymArr):
        return s_int(x.item())
    return int(x, *a)


def s_bool(x=False):
    if isinstance(x, SymBool):
        return core.decide(x)
    return bool(x)


def s_isinstance(obj, cls):
    if isinstance(cls, tuple):
        return any(s_isinstance(obj, c) for c in cls)
    if isinstance(cls, symnp._DType):
        if cls.kind == "b":
            return isinstance(obj, (SymBool,))
        if cls.kind == "f":
            return isinstance(obj, (SymReal, Fraction))
        return isinstance(obj, SymInt)
    if cls is float:
        return isinstance(obj, (float, SymReal, Fraction))
    if cls is int:
        return isinstance(obj, (int, SymInt))
    if cls is bool:
        return isinstance(obj, (bool, SymBool))
    import numbers
    if cls is numbers.Integral:
        return isinstance(obj, (numbers.Integral, SymInt))
    if cls is numbers.Number or cls is numbers.Real:
        return isinstance(obj, (numbers.Number, SymReal, SymInt))
    return isinstance(obj, cls)


def s_round(x, ndigits=None):
    if is_sym(x):
        raise core.Unsupported("round() of a symbolic value")
    if isinstance(x, Fraction):
        return round(float(x), ndigits) if ndigits is not None else round(x)
    return round(x, ndigits) if ndigits is not None else round(x)


BUILTINS = {"float": s_float, "int": s_int, "isinstance": s_isinstance,
            "round": s_round}


def make_scipy():
    from . import symscipy
    sp = types.ModuleType("scipy")
    sp.signal = symscipy.signal
    sp.ndimage = symscipy.ndimage
    return {"scipy": sp, "scipy.signal": symscipy.signal,
            "scipy.ndimage": symscipy.ndimage}


def standard_world(extra_shims=None, extra_builtins=None):
    symnp.ndarray = symnp.SymArr
    shims = {"numpy": symnp, "lmfit": symlmfit, "lmfit.models": symlmfit.models,
             "lmfit.parameter": symlmfit.parameter}
    shims.update(make_scipy())
    if extra_shims:
        shims.update(extra_shims)
    bi = dict(BUILTINS)
    if extra_builtins:
        bi.update(extra_builtins)
    return loader.World(shims=shims, builtins_override=bi)
