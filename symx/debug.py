"""Run one path of one task in-process: python -m symx.debug C04 0 [prefix bits e.g. 1,0,1] [timeout_s] [tier]"""
import sys, time, importlib, json, faulthandler
from . import driver
faulthandler.dump_traceback_later(int(sys.argv[4]) if len(sys.argv) > 4 else 120, exit=True)
pid, idx = sys.argv[1], int(sys.argv[2])
prefix = [bool(int(b)) for b in sys.argv[3].split(",")] if len(sys.argv) > 3 and sys.argv[3] else []
sys.path.insert(0, driver.VERIF)
mod = importlib.import_module(f"harness.{pid.lower()}")
tier = sys.argv[5] if len(sys.argv) > 5 else "quick"
task = mod.tasks(tier)[idx]
task.setdefault("timeout_ms", int(__import__("os").environ.get("DBG_TIMEOUT_MS", "20000")))
t = time.time()
r = driver.run_path(f"harness.{pid.lower()}", task, prefix)
r.pop("entered"); r.pop("hashes")
obs = r.pop("obligations")
print(json.dumps(r, indent=1, default=str)[:3000])
for o in obs:
    print(o["name"], o["result"], round(o.get("time", 0), 2), o.get("model") if o["result"] == "sat" else "")
print("wall", time.time() - t)
