"""symx: dynamic symbolic execution of nanite's unmodified source over z3."""
