"""Value model of lmfit.Parameters/Parameter (bounds clipping on assignment,
set(), valuesdict(), __getstate__, dumps/loads as an opaque round trip) and
*contract stubs* for lmfit.minimize and lmfit.models.LinearModel.

The optimiser itself is never modelled: `minimize` returns, for every
varying parameter, a fresh symbolic real inside [min, max]; fixed parameters
keep their values.  Hooks let a harness observe each call.
"""
import copy as _copy
import types
from fractions import Fraction

from . import core
from .core import sym_ite, Unsupported, is_sym

inf = float("inf")

__version__ = "symx-stub"


def _clip(val, lo, hi):
    """lmfit's value setter: clip into [min, max].  Decided on the path (the
    harness assumptions normally make one side infeasible)."""
    if val is None:
        return val
    v = val
    if core.is_nan(v):
        return v
    if not core.is_inf(hi) and core.decide(v > hi):
        v = hi
    elif not core.is_inf(lo) and core.decide(v < lo):
        v = lo
    return v


def _norm(x):
    from .symnp import _conc
    if x is None:
        return None
    if hasattr(x, "__symx_value__"):
        x = x.__symx_value__()
    return _conc(x)


class Parameter:
    def __init__(self, name, value=None, vary=True, min=-inf, max=inf,
                 expr=None, brute_step=None, user_data=None):
        self.name = name
        self.user_data = user_data
        self.init_value = value
        self.min = -inf if min is None else _norm(min)
        self.max = inf if max is None else _norm(max)
        self.brute_step = brute_step
        self._vary = vary
        self._expr = expr if expr != "" else None
        if self._expr is not None:
            self._vary = False
        self.stderr = None
        self.correl = None
        v = _norm(value)
        if v is None:
            v = -inf
        self._val = _clip(v, self.min, self.max)

    # lmfit API ------------------------------------------------------------------
    def set(self, value=None, vary=None, min=None, max=None, expr=None,
            brute_step=None, is_init_value=True):
        if vary is not None:
            self._vary = vary
            if vary:
                self._expr = None
        if min is not None:
            self.min = _norm(min)
        if max is not None:
            self.max = _norm(max)
        if value is not None:
            self.value = value
            if is_init_value:
                self.init_value = value
            self._expr = None
        if expr is not None:
            self.expr = expr
        if brute_step is not None:
            self.brute_step = None if brute_step == 0.0 else brute_step

    @property
    def value(self):
        return self._val

    @value.setter
    def value(self, val):
        self._val = _clip(_norm(val), self.min, self.max)

    @property
    def vary(self):
        return self._vary

    @vary.setter
    def vary(self, val):
        self._vary = val
        if val:
            self._expr = None

    @property
    def expr(self):
        return self._expr

    @expr.setter
    def expr(self, val):
        if val == "":
            val = None
        self._expr = val
        if val is not None:
            self._vary = False

    def __getstate__(self):
        return (self.name, self.value, self._vary, self.expr, self.min,
                self.max, self.brute_step, self.stderr, self.correl,
                self.init_value, self.user_data)

    def __setstate__(self, state):
        (self.name, _value, self._vary, self._expr, self.min, self.max,
         self.brute_step, self.stderr, self.correl, self.init_value,
         self.user_data) = state
        self._val = _clip(_value, self.min, self.max)

    def __deepcopy__(self, memo):
        p = Parameter.__new__(Parameter)
        p.__dict__.update(self.__dict__)
        return p

    def __copy__(self):
        return self.__deepcopy__({})

    def __repr__(self):
        return f"<Parameter '{self.name}', value={self._val!r}, bounds=[{self.min!r}:{self.max!r}], vary={self._vary}>"

    # arithmetic like a float ------------------------------------------------------
    def __symx_value__(self):
        return self._val

    def __float__(self):
        v = self._val
        if is_sym(v):
            raise Unsupported("float(Parameter) outside shimmed builtins")
        return float(v)

    def __int__(self):
        v = self._val
        if is_sym(v):
            return core.concretize(core.sym_trunc(v), -4, 260, "int(Parameter)")
        return int(v)

    def __add__(self, o): return self._val + _v(o)
    def __radd__(self, o): return _v(o) + self._val
    def __sub__(self, o): return self._val - _v(o)
    def __rsub__(self, o): return _v(o) - self._val
    def __mul__(self, o): return self._val * _v(o)
    def __rmul__(self, o): return _v(o) * self._val
    def __truediv__(self, o): return core.sym_div(self._val, _v(o))
    def __rtruediv__(self, o): return core.sym_div(_v(o), self._val)
    def __pow__(self, o): return core.sym_pow(self._val, _v(o))
    def __neg__(self): return -self._val
    def __abs__(self): return core.sym_abs(self._val)
    def __lt__(self, o): return self._val < _v(o)
    def __le__(self, o): return self._val <= _v(o)
    def __gt__(self, o): return self._val > _v(o)
    def __ge__(self, o): return self._val >= _v(o)
    def __eq__(self, o): return self._val == _v(o)
    def __ne__(self, o): return self._val != _v(o)
    __hash__ = object.__hash__


def _v(o):
    if isinstance(o, Parameter):
        return o._val
    return o


class Parameters(dict):
    def __init__(self, usersyms=None):
        super().__init__()

    def add(self, name, value=None, vary=True, min=-inf, max=inf, expr=None,
            brute_step=None):
        if isinstance(name, Parameter):
            self[name.name] = name
        else:
            self[name] = Parameter(name, value=value, vary=vary, min=min,
                                   max=max, expr=expr, brute_step=brute_step)

    def add_many(self, *parlist):
        for p in parlist:
            if isinstance(p, Parameter):
                self.add(p)
            else:
                self.add(*p)

    def __setitem__(self, key, par):
        if not isinstance(par, Parameter):
            raise ValueError(f"'{par}' is not a Parameter")
        dict.__setitem__(self, key, par)
        par.name = key

    def valuesdict(self):
        return {p.name: p.value for p in self.values()}

    def copy(self):
        return self.__deepcopy__(None)

    def __copy__(self):
        return self.__deepcopy__(None)

    def __deepcopy__(self, memo):
        out = Parameters()
        for k, p in self.items():
            dict.__setitem__(out, k, p.__deepcopy__({}))
        return out

    def __reduce__(self):
        raise Unsupported("pickling Parameters")

    def dumps(self, **kws):
        """Opaque token: loads(dumps(p)) reproduces the states (lmfit's JSON
        round trip is outside the claim)."""
        return _Dump(tuple(p.__getstate__() for p in self.values()))

    def loads(self, s, **kws):
        if not isinstance(s, _Dump):
            raise Unsupported("Parameters.loads of a foreign string")
        self.clear()
        for st in s.states:
            p = Parameter.__new__(Parameter)
            p.__setstate__(st)
            dict.__setitem__(self, p.name, p)
        return self

    def pretty_print(self, *a, **k):
        pass


class _Dump(str):
    def __new__(cls, states):
        o = str.__new__(cls, f"<params-dump {id(states)}>")
        o.states = states
        return o


def create_params(**kws):
    ps = Parameters()
    for k, v in kws.items():
        if isinstance(v, dict):
            ps.add(k, **v)
        else:
            ps.add(k, value=v)
    return ps


# ---------------------------------------------------------------------------
# minimize: contract stub


class MinimizerResult:
    pass


#: harness-installed observers: f(call_record) for every minimize call
MINIMIZE_HOOKS = []
#: harness-installed policy that may pin the returned values:
#: f(call_record, name, param) -> value or None
MINIMIZE_POLICY = [None]
CALLS = []


def minimize(fcn, params, method="leastsq", args=None, kws=None, **fit_kws):
    args = tuple(args or ())
    rec = {"fcn": fcn, "params_in": params, "method": method, "args": args,
           "kws": kws, "fit_kws": dict(fit_kws),
           "params_state": [p.__getstate__() for p in params.values()],
           "index": len(CALLS)}
    CALLS.append(rec)
    out = params.__deepcopy__(None)
    for name, p in out.items():
        if p.vary and p.expr is None:
            val = None
            if MINIMIZE_POLICY[0] is not None:
                val = MINIMIZE_POLICY[0](rec, name, p)
            if val is None:
                val = core.fresh_real(f"opt_{rec['index']}_{name}")
                if not core.is_inf(p.min):
                    core.assume(val >= p.min)
                if not core.is_inf(p.max):
                    core.assume(val <= p.max)
            p._val = val
    rec["opt_values"] = {name: p._val for name, p in out.items()}
    res = MinimizerResult()
    res.params = out
    res.success = True
    res.method = method
    res.call = rec
    resid = fcn(out, *args, **(kws or {}))
    rec["residual_at_result"] = resid
    from . import symnp
    r = symnp.asarray(resid)
    res.residual = r
    res.chisqr = (r * r).sum()
    res.nfev = 1
    rec["result"] = res
    for h in MINIMIZE_HOOKS:
        h(rec)
    return res


def reset_stub():
    CALLS.clear()
    MINIMIZE_HOOKS.clear()
    MINIMIZE_POLICY[0] = None


class _ModelResult:
    pass


class LinearModel:
    """Contract stub: slope and intercept are arbitrary reals."""

    def guess(self, data, x=None, **k):
        return {"slope": None, "intercept": None}

    def fit(self, data, params=None, x=None, **k):
        from . import symnp
        m = core.fresh_real("lin_slope")
        c = core.fresh_real("lin_icpt")
        out = _ModelResult()
        P = Parameters()
        P.add("slope", value=m)
        P.add("intercept", value=c)
        out.params = P
        out.best_values = {"slope": m, "intercept": c}
        out.best_fit = symnp.asarray(x) * m + c
        out.slope, out.intercept = m, c
        return out

    def eval(self, params=None, x=None, **k):
        from . import symnp
        val = lambda p: p.value if isinstance(p, Parameter) else p
        return symnp.asarray(x) * val(params["slope"]) + val(params["intercept"])


models = types.ModuleType("lmfit.models")
models.LinearModel = LinearModel
parameter = types.ModuleType("lmfit.parameter")
parameter.Parameter = Parameter
parameter.Parameters = Parameters
