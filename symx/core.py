"""symx core: symbolic scalars over z3, the per-path context, feasibility
decisions (re-execution DSE), obligations and witnesses.

Everything here is per *path run*: a harness function is executed by the
ordinary Python interpreter; whenever the (unmodified) nanite code branches
on a symbolic condition, `decide` asks the solver which sides are feasible,
follows the scheduled one and records the decision so that the driver
(`symx.dse`) can schedule the sibling later.
"""
import math
import time
from fractions import Fraction

import z3


class Unsupported(Exception):
    """An operation the shim does not model: never guessed, always reported
    (the check exits 2)."""


class PathAbort(BaseException):
    """Raised to end a path early (infeasible assumption, bound hit)."""

    def __init__(self, kind, msg=""):
        super().__init__(f"{kind}: {msg}")
        self.kind = kind
        self.msg = msg


# ---------------------------------------------------------------------------
# numbers


def nice_fraction(x):
    """A Python float literal is read as the simplest rational that rounds to
    it (so `4/3` in the source is exactly 4/3); otherwise its exact binary
    value.  This is the real-number reading of the source text."""
    if isinstance(x, bool):
        return Fraction(int(x))
    if isinstance(x, int):
        return Fraction(x)
    if isinstance(x, Fraction):
        return x
    if isinstance(x, float):
        if math.isnan(x) or math.isinf(x):
            raise Unsupported(f"non-finite constant {x} in real arithmetic")
        fr = Fraction(x)
        for lim in (10**3, 10**6, 10**9, 10**12):
            cand = fr.limit_denominator(lim)
            if float(cand) == x:
                return cand
        return fr
    raise TypeError(type(x))


def is_nan(x):
    return isinstance(x, float) and math.isnan(x)


def is_inf(x):
    return isinstance(x, float) and math.isinf(x)


def _np_scalar(x):
    # numpy scalars that leak in from concrete helper code
    t = type(x).__module__
    if t == "numpy":
        try:
            return x.item()
        except Exception:
            return x
    return x


def rv(x):
    """z3 real term for a concrete or symbolic scalar."""
    x = _np_scalar(x)
    if isinstance(x, SymReal):
        return x.t
    if isinstance(x, SymInt):
        return z3.ToReal(x.t)
    if isinstance(x, SymBool):
        return z3.If(x.t, z3.RealVal(1), z3.RealVal(0))
    if isinstance(x, (bool, int, float, Fraction)):
        fr = nice_fraction(x)
        return z3.RealVal(str(fr))
    raise Unsupported(f"cannot make a real from {type(x)}")


def iv(x):
    x = _np_scalar(x)
    if isinstance(x, SymInt):
        return x.t
    if isinstance(x, SymBool):
        return z3.If(x.t, z3.IntVal(1), z3.IntVal(0))
    if isinstance(x, bool):
        return z3.IntVal(int(x))
    if isinstance(x, int):
        return z3.IntVal(x)
    raise Unsupported(f"cannot make an int from {type(x)}")


def bv(x):
    x = _np_scalar(x)
    if isinstance(x, SymBool):
        return x.t
    if isinstance(x, bool):
        return z3.BoolVal(x)
    if isinstance(x, (int, float, Fraction)):
        return z3.BoolVal(bool(x))
    if isinstance(x, (SymReal, SymInt)):
        return (x != 0).t if isinstance(x != 0, SymBool) else z3.BoolVal(x != 0)
    raise Unsupported(f"cannot make a bool from {type(x)}")


def is_sym(x):
    return isinstance(x, (SymReal, SymInt, SymBool))


def is_conc_num(x):
    return isinstance(x, (bool, int, float, Fraction))


def _simp(t):
    return z3.simplify(t)


def mk_real(t):
    """Wrap a z3 real term; fold to a Fraction when it is a numeral."""
    t = _simp(t)
    if z3.is_rational_value(t):
        fr = Fraction(t.numerator_as_long(), t.denominator_as_long())
        return fr
    return SymReal(t)


def mk_int(t):
    t = _simp(t)
    if z3.is_int_value(t):
        return t.as_long()
    return SymInt(t)


def mk_bool(t):
    t = _simp(t)
    if z3.is_true(t):
        return True
    if z3.is_false(t):
        return False
    return SymBool(t)


def _conc(x):
    x = _np_scalar(x)
    if isinstance(x, float) and not (math.isnan(x) or math.isinf(x)):
        return nice_fraction(x)
    return x


class _Num:
    __array_priority__ = 1000
    __slots__ = ("t",)

    def __hash__(self):
        return id(self)

    # symbolic scalars are immutable values
    def __copy__(self):
        return self

    def __deepcopy__(self, memo):
        return self


def _arith(a, b, op):
    """Binary arithmetic on scalars; handles NaN/inf constants explicitly."""
    a = _np_scalar(a)
    b = _np_scalar(b)
    if is_nan(a) or is_nan(b):
        return float("nan")
    if is_inf(a) or is_inf(b):
        return _inf_arith(a, b, op)
    both_int = isinstance(a, (SymInt, int, bool)) and isinstance(b, (SymInt, int, bool)) \
        and not isinstance(a, float) and not isinstance(b, float)
    if both_int and op in ("add", "sub", "mul"):
        x, y = iv(a), iv(b)
        return mk_int({"add": x + y, "sub": x - y, "mul": x * y}[op])
    x, y = rv(a), rv(b)
    if op == "add":
        return mk_real(x + y)
    if op == "sub":
        return mk_real(x - y)
    if op == "mul":
        return mk_real(x * y)
    if op == "div":
        return sym_div(a, b)
    raise Unsupported(op)


def _inf_arith(a, b, op):
    # only the cases that cannot depend on a symbolic sign are modelled
    if op in ("add", "sub"):
        if is_inf(a) and not is_inf(b):
            return a
        if is_inf(b) and not is_inf(a):
            return b if op == "add" else -b
        if is_inf(a) and is_inf(b):
            r = a + b if op == "add" else a - b
            return r
    if op in ("mul", "div"):
        if is_conc_num(a) and is_conc_num(b):
            try:
                return float(a) * float(b) if op == "mul" else float(a) / float(b)
            except ZeroDivisionError:
                return float("nan")
        # symbolic times infinity: sign matters
        s, other = (a, b) if is_inf(a) else (b, a)
        if op == "div" and is_inf(b) and not is_inf(a):
            return Fraction(0)
        if decide(other > 0):
            return s
        if decide(other < 0):
            return -s
        return float("nan")
    raise Unsupported(f"inf arithmetic {op}")


def sym_div(a, b):
    """a / b with numpy semantics for a zero divisor (inf / nan)."""
    a = _np_scalar(a)
    b = _np_scalar(b)
    if is_nan(a) or is_nan(b):
        return float("nan")
    if is_inf(a) or is_inf(b):
        return _inf_arith(a, b, "div")
    if is_conc_num(b) and not is_sym(a):
        fa, fb = nice_fraction(a), nice_fraction(b)
        if fb == 0:
            if fa == 0:
                return float("nan")
            return float("inf") if fa > 0 else float("-inf")
        return fa / fb
    if is_conc_num(b):
        fb = nice_fraction(b)
        if fb == 0:
            if decide(a == 0):
                return float("nan")
            return float("inf") if decide(a > 0) else float("-inf")
        return mk_real(rv(a) / rv(b))
    # symbolic divisor: ask whether it can vanish on this path
    if decide(b == 0):
        if is_sym(a):
            if decide(a == 0):
                return float("nan")
            return float("inf") if decide(a > 0) else float("-inf")
        fa = nice_fraction(a)
        if fa == 0:
            return float("nan")
        return float("inf") if fa > 0 else float("-inf")
    ta, tb = rv(a), rv(b)
    # cancel a common rational factor ((2A)/(2B) -> A/B): keeps uniformly
    # scaled computations syntactically equal to the unscaled ones
    ka, kb = _content(ta), _content(tb)
    if ka != 1 and ka == kb:
        ta, tb = _strip_content(ta, ka), _strip_content(tb, kb)
    return mk_real(ta / tb)


def _cmp(a, b, op):
    a = _np_scalar(a)
    b = _np_scalar(b)
    if is_nan(a) or is_nan(b):
        return op == "ne"
    if is_inf(a) or is_inf(b):
        if is_conc_num(a) and is_conc_num(b):
            fa, fb = float(a), float(b)
            return {"lt": fa < fb, "le": fa <= fb, "gt": fa > fb,
                    "ge": fa >= fb, "eq": fa == fb, "ne": fa != fb}[op]
        # symbolic finite vs infinity
        if is_inf(b):
            pos = b > 0
            return {"lt": pos, "le": pos, "gt": not pos, "ge": not pos,
                    "eq": False, "ne": True}[op]
        pos = a > 0
        return {"lt": not pos, "le": not pos, "gt": pos, "ge": pos,
                "eq": False, "ne": True}[op]
    if isinstance(a, (SymInt, int, bool)) and isinstance(b, (SymInt, int, bool)) \
            and not isinstance(a, SymBool) and not isinstance(b, SymBool):
        x, y = iv(a), iv(b)
    else:
        x, y = rv(a), rv(b)
    t = {"lt": x < y, "le": x <= y, "gt": x > y, "ge": x >= y,
         "eq": x == y, "ne": x != y}[op]
    return mk_bool(t)


class SymReal(_Num):
    def __init__(self, t):
        self.t = t

    def __repr__(self):
        return f"SymReal({self.t})"

    def __add__(self, o): return _dispatch(self, o, "add")
    def __radd__(self, o): return _dispatch(o, self, "add")
    def __sub__(self, o): return _dispatch(self, o, "sub")
    def __rsub__(self, o): return _dispatch(o, self, "sub")
    def __mul__(self, o): return _dispatch(self, o, "mul")
    def __rmul__(self, o): return _dispatch(o, self, "mul")
    def __truediv__(self, o): return _dispatch(self, o, "div")
    def __rtruediv__(self, o): return _dispatch(o, self, "div")
    def __neg__(self): return mk_real(-self.t)
    def __pos__(self): return self
    def __abs__(self): return sym_abs(self)
    def __pow__(self, o): return _dispatch(self, o, "pow")
    def __rpow__(self, o): return _dispatch(o, self, "pow")
    def __lt__(self, o): return _dispatch(self, o, "lt")
    def __le__(self, o): return _dispatch(self, o, "le")
    def __gt__(self, o): return _dispatch(self, o, "gt")
    def __ge__(self, o): return _dispatch(self, o, "ge")
    def __eq__(self, o): return _dispatch(self, o, "eq")
    def __ne__(self, o): return _dispatch(self, o, "ne")
    __hash__ = _Num.__hash__

    def __bool__(self):
        return decide(self != 0)

    def __float__(self):
        raise Unsupported("float() of a symbolic real outside the shimmed builtins")

    def __int__(self):
        raise Unsupported("int() of a symbolic real outside the shimmed builtins")

    def __floordiv__(self, o):
        return sym_floor(self / o)

    def __round__(self, n=None):
        raise Unsupported("round() of a symbolic real")

    def item(self):
        return self

    @property
    def real(self):
        return self


class SymInt(_Num):
    def __init__(self, t):
        self.t = t

    def __repr__(self):
        return f"SymInt({self.t})"

    def __add__(self, o): return _dispatch(self, o, "add")
    def __radd__(self, o): return _dispatch(o, self, "add")
    def __sub__(self, o): return _dispatch(self, o, "sub")
    def __rsub__(self, o): return _dispatch(o, self, "sub")
    def __mul__(self, o): return _dispatch(self, o, "mul")
    def __rmul__(self, o): return _dispatch(o, self, "mul")
    def __truediv__(self, o): return _dispatch(self, o, "div")
    def __rtruediv__(self, o): return _dispatch(o, self, "div")
    def __neg__(self): return mk_int(-self.t)
    def __pos__(self): return self
    def __abs__(self): return sym_abs(self)
    def __pow__(self, o): return _dispatch(self, o, "pow")
    def __lt__(self, o): return _dispatch(self, o, "lt")
    def __le__(self, o): return _dispatch(self, o, "le")
    def __gt__(self, o): return _dispatch(self, o, "gt")
    def __ge__(self, o): return _dispatch(self, o, "ge")
    def __eq__(self, o): return _dispatch(self, o, "eq")
    def __ne__(self, o): return _dispatch(self, o, "ne")
    __hash__ = _Num.__hash__

    def __floordiv__(self, o):
        o = _np_scalar(o)
        if isinstance(o, (int, SymInt)) and not isinstance(o, bool):
            if isinstance(o, int) and o > 0:
                return mk_int(self.t / z3.IntVal(o))
            if isinstance(o, SymInt):
                if decide(o > 0):
                    return mk_int(self.t / o.t)
                raise Unsupported("floor division by a non-positive symbolic int")
        return sym_floor(self / o)

    def __rfloordiv__(self, o):
        if isinstance(o, int):
            if decide(self > 0):
                return mk_int(z3.IntVal(o) / self.t)
        raise Unsupported("rfloordiv")

    def __mod__(self, o):
        if isinstance(o, int) and o > 0:
            return mk_int(self.t % z3.IntVal(o))
        raise Unsupported("mod")

    def __bool__(self):
        return decide(self != 0)

    def __index__(self):
        return concretize(self)

    def __int__(self):
        return concretize(self)

    def __float__(self):
        raise Unsupported("float() of a symbolic int outside the shimmed builtins")

    def item(self):
        return self


class SymBool(_Num):
    def __init__(self, t):
        self.t = t

    def __repr__(self):
        return f"SymBool({self.t})"

    def __bool__(self):
        return decide(self)

    def __invert__(self): return mk_bool(z3.Not(self.t))
    def __and__(self, o): return mk_bool(z3.And(self.t, bv(o)))
    __rand__ = __and__
    def __or__(self, o): return mk_bool(z3.Or(self.t, bv(o)))
    __ror__ = __or__
    def __xor__(self, o): return mk_bool(z3.Xor(self.t, bv(o)))
    __rxor__ = __xor__

    def __eq__(self, o):
        if isinstance(o, (SymBool, bool)):
            return mk_bool(self.t == bv(o))
        return _cmp(self, o, "eq")

    def __ne__(self, o):
        r = self.__eq__(o)
        return (not r) if isinstance(r, bool) else ~r
    __hash__ = _Num.__hash__

    # numeric use of booleans (np.sum(mask), mask * other)
    def __add__(self, o): return _dispatch(self, o, "add")
    def __radd__(self, o): return _dispatch(o, self, "add")
    def __mul__(self, o):
        if isinstance(o, (SymBool, bool)):
            return self & o
        return _dispatch(self, o, "mul")
    __rmul__ = __mul__
    def __sub__(self, o): return _dispatch(self, o, "sub")
    def __rsub__(self, o): return _dispatch(o, self, "sub")
    def __lt__(self, o): return _dispatch(self, o, "lt")
    def __le__(self, o): return _dispatch(self, o, "le")
    def __gt__(self, o): return _dispatch(self, o, "gt")
    def __ge__(self, o): return _dispatch(self, o, "ge")


def _as_intlike(x):
    if isinstance(x, SymBool):
        return mk_int(iv(x))
    return x


def _dispatch(a, b, op):
    # arrays take over (SymArr implements the reflected operators)
    from . import symnp
    if isinstance(a, symnp.SymArr) or isinstance(b, symnp.SymArr):
        return NotImplemented
    if hasattr(a, "__symx_value__"):
        a = a.__symx_value__()
    if hasattr(b, "__symx_value__"):
        b = b.__symx_value__()
    a = _np_scalar(a)
    b = _np_scalar(b)
    if not (is_sym(a) or is_conc_num(a)) or not (is_sym(b) or is_conc_num(b)):
        return NotImplemented
    if op in ("lt", "le", "gt", "ge", "eq", "ne"):
        return _cmp(_as_intlike(a), _as_intlike(b), op)
    a = _as_intlike(a)
    b = _as_intlike(b)
    if op == "pow":
        return sym_pow(a, b)
    if op == "div":
        return sym_div(a, b)
    return _arith(a, b, op)


# ---------------------------------------------------------------------------
# non-linear functions as memoised auxiliaries


def _factor(t):
    """(k, X) with t == k*X for a rational numeral k != 0, else (1, t)."""
    if z3.is_app(t) and t.decl().kind() == z3.Z3_OP_MUL and t.num_args() >= 2 \
            and z3.is_rational_value(t.arg(0)):
        rest = [t.arg(i) for i in range(1, t.num_args())]
        if not any(z3.is_rational_value(r) for r in rest):
            k = t.arg(0)
            fr = Fraction(k.numerator_as_long(), k.denominator_as_long())
            if fr != 0:
                x = rest[0]
                for r in rest[1:]:
                    x = x * r
                return fr, x
    return Fraction(1), t


def _content(t):
    """Positive rational k with t == k * _strip_content(t, k).  Only the
    syntactic cases produced by uniform scaling are recognised (a product
    with a numeral, or a sum whose terms all carry the same |numeral|)."""
    if z3.is_app(t) and t.decl().kind() == z3.Z3_OP_ADD:
        ks = [abs(_factor(c)[0]) for c in t.children()]
        if ks and all(k == ks[0] for k in ks) and ks[0] != 1:
            return ks[0]
        return Fraction(1)
    return abs(_factor(t)[0])


def _strip_content(t, k):
    def one(c):
        kc, x = _factor(c)
        return x if kc > 0 else -x
    if z3.is_app(t) and t.decl().kind() == z3.Z3_OP_ADD:
        return z3.Sum([one(c) for c in t.children()])
    return one(t)


def sym_ite(c, a, b):
    """if-then-else on scalars (no path split)."""
    c = _np_scalar(c)
    if isinstance(c, bool):
        return a if c else b
    if not isinstance(c, SymBool):
        raise Unsupported(f"ite condition {type(c)}")
    a = _np_scalar(a)
    b = _np_scalar(b)
    if a is b:
        return a
    if isinstance(a, (SymBool, bool)) and isinstance(b, (SymBool, bool)):
        return mk_bool(z3.If(c.t, bv(a), bv(b)))
    if is_nan(a) or is_nan(b) or is_inf(a) or is_inf(b):
        if (is_nan(a) and is_nan(b)) or (is_inf(a) and is_inf(b) and a == b):
            return a
        # a value that is NaN on one side only must split the path
        return a if decide(c) else b
    if isinstance(a, (SymInt, int)) and isinstance(b, (SymInt, int)) \
            and not isinstance(a, bool) and not isinstance(b, bool):
        return mk_int(z3.If(c.t, iv(a), iv(b)))
    ta, tb = rv(a), rv(b)
    # pull a common rational factor out of both branches (keeps scaled and
    # unscaled computations structurally aligned: k*ite(c, A, B))
    ka, xa = _factor(ta)
    kb, xb = _factor(tb)
    if ka == kb and ka != 1:
        return mk_real(z3.RealVal(str(ka)) * z3.If(c.t, xa, xb))
    if ka != 1 and z3.is_rational_value(tb) and tb.numerator_as_long() == 0:
        return mk_real(z3.RealVal(str(ka)) * z3.If(c.t, xa, z3.RealVal(0)))
    if kb != 1 and z3.is_rational_value(ta) and ta.numerator_as_long() == 0:
        return mk_real(z3.RealVal(str(kb)) * z3.If(c.t, z3.RealVal(0), xb))
    return mk_real(z3.If(c.t, ta, tb))


def sym_abs(x):
    x = _np_scalar(x)
    if is_conc_num(x):
        return abs(x) if isinstance(x, float) else abs(nice_fraction(x))
    if isinstance(x, SymInt):
        return mk_int(z3.If(x.t >= 0, x.t, -x.t))
    if isinstance(x, SymBool):
        return mk_int(iv(x))
    k = _content(x.t)
    if k != 1:
        rest = _simp(_strip_content(x.t, k))
        return mk_real(z3.RealVal(str(k)) * z3.If(rest >= 0, rest, -rest))
    return mk_real(z3.If(x.t >= 0, x.t, -x.t))


def sym_floor(x):
    x = _np_scalar(x)
    if is_conc_num(x):
        return math.floor(x)
    if isinstance(x, SymInt):
        return x
    return mk_int(z3.ToInt(rv(x)))


def sym_trunc(x):
    """int(x): truncation toward zero."""
    x = _np_scalar(x)
    if is_conc_num(x):
        return int(x)
    if isinstance(x, SymInt):
        return x
    t = rv(x)
    return mk_int(z3.If(t >= 0, z3.ToInt(t), -z3.ToInt(-t)))


def _aux(kind, arg_t, mkdef):
    """Fresh real variable for f(arg), hash-consed on the simplified argument
    so both sides of an equivalence share it."""
    ctx = cur()
    arg_s = _simp(arg_t)
    key = (kind, arg_s.get_id())
    hit = ctx.aux.get(key)
    if hit is not None:
        return hit[0]
    name = f"aux!{kind}!{len(ctx.aux)}"
    v = z3.Real(name)
    ctx.aux[key] = (v, arg_s, kind)
    ctx.aux_defs[name] = (mkdef(v, arg_s), arg_s, kind, v)
    return v


def sym_sqrt(x):
    x = _np_scalar(x)
    if is_nan(x):
        return x
    if is_conc_num(x) and not is_inf(x):
        fr = nice_fraction(x)
        if fr < 0:
            return float("nan")
        n, d = fr.numerator, fr.denominator
        rn, rd = math.isqrt(n), math.isqrt(d)
        if rn * rn == n and rd * rd == d:
            return Fraction(rn, rd)
        if FLOAT_MODE[0]:
            return Fraction(math.sqrt(fr))
    if is_inf(x):
        return x if x > 0 else float("nan")
    t = rv(x)
    v = _aux("sqrt", t, lambda v, a: z3.And(v >= 0, z3.Implies(a >= 0, v * v == a)))
    return SymReal(v)


#: concrete shim-validation mode: irrational functions of concrete arguments
#: are evaluated in double precision instead of becoming auxiliaries
FLOAT_MODE = [False]


def sym_cbrt_pos(x):
    if FLOAT_MODE[0] and not is_sym(x):
        return Fraction(float(x) ** (1.0 / 3.0))
    t = rv(x)
    v = _aux("cbrt", t, lambda v, a: z3.And(v >= 0, z3.Implies(a >= 0, v * v * v == a)))
    return SymReal(v)


def sym_fun(kind, x, axioms=None):
    """Uninterpreted real function (tan, log, exp, ...) as a memoised
    auxiliary.  Congruence between different argument terms is added when the
    cone of influence is collected (see Ctx.cone)."""
    if FLOAT_MODE[0] and not is_sym(x):
        return Fraction(getattr(math, kind)(float(x)))
    t = rv(x)
    v = _aux(kind, t, lambda v, a: (axioms(v, a) if axioms else z3.BoolVal(True)))
    return SymReal(v)


def sym_pow(a, b):
    a = _np_scalar(a)
    b = _np_scalar(b)
    if hasattr(b, "__symx_value__"):
        b = b.__symx_value__()
    if is_nan(a) or is_nan(b):
        return float("nan")
    if is_sym(b):
        raise Unsupported("symbolic exponent")
    if isinstance(b, float) and not b.is_integer():
        e = nice_fraction(b)
    elif isinstance(b, Fraction):
        e = b
    else:
        e = Fraction(int(b))
    if not is_sym(a):
        if is_inf(a):
            try:
                return float(a) ** float(e)
            except (OverflowError, ZeroDivisionError, ValueError):
                return float("nan")
        fa = nice_fraction(a)
        if e.denominator == 1:
            return fa ** int(e)
        if fa < 0:
            return float("nan")
        if e.denominator == 2:
            r = sym_sqrt(fa)
            return r ** e.numerator if isinstance(r, Fraction) else sym_pow(r, e.numerator)
        raise Unsupported(f"concrete power {fa}**{e}")
    if e.denominator == 1:
        n = int(e)
        if n == 0:
            return Fraction(1)
        base = a
        if isinstance(a, SymInt):
            t = iv(a)
            out = t
            for _ in range(abs(n) - 1):
                out = out * t
            if n > 0:
                return mk_int(out)
            return sym_div(1, mk_int(out))
        t = rv(base)
        out = t
        for _ in range(abs(n) - 1):
            out = out * t
        if n > 0:
            return mk_real(out)
        return sym_div(1, mk_real(out))
    if e.denominator == 2:
        s = sym_sqrt(a)
        k = e.numerator  # odd
        whole = (k - 1) // 2
        if k > 0:
            out = s
            if whole:
                out = sym_pow(a, whole) * s
            return out
        return sym_div(1, sym_pow(a, -e))
    if e.denominator == 3:
        c = sym_cbrt_pos(a)
        return sym_pow(c, e.numerator)
    raise Unsupported(f"power with exponent {e}")


# ---------------------------------------------------------------------------
# context


class Ctx:
    def __init__(self, prefix=(), timeout_ms=60000, max_decisions=400):
        self.pc = []                 # z3 BoolRefs (decisions + assumptions)
        self.prefix = list(prefix)
        self.decisions = []          # (taken: bool, forked: bool)
        self.cache = {}
        self.keep = []               # keep ASTs alive (ids are used as keys)
        self.aux = {}
        self.aux_defs = {}
        self.inputs = {}             # name -> z3 const (harness inputs)
        self.timeout_ms = timeout_ms
        self.max_decisions = max_decisions
        self.queries = {"sat": 0, "unsat": 0, "unknown": 0}
        self.solver_s = 0.0
        self.obligations = []        # dicts
        self.witnesses = {}
        self.notes = []
        self.model = None            # last model known to satisfy pc
        self.unknown_feasibility = 0
        self.counters = {}

    # -- cone of influence over auxiliary definitions ----------------------
    def cone(self, formulas):
        names = set()
        todo = list(formulas)
        seen = set()
        out = []
        while todo:
            f = todo.pop()
            for n in _aux_names(f, seen):
                if n not in names and n in self.aux_defs:
                    names.add(n)
                    d, arg, kind, v = self.aux_defs[n]
                    out.append(d)
                    todo.append(d)
                    todo.append(arg)
        # congruence for uninterpreted kinds
        by_kind = {}
        for n in names:
            d, arg, kind, v = self.aux_defs[n]
            by_kind.setdefault(kind, []).append((v, arg))
        for kind, lst in by_kind.items():
            for i in range(len(lst)):
                for j in range(i + 1, len(lst)):
                    out.append(z3.Implies(lst[i][1] == lst[j][1],
                                          lst[i][0] == lst[j][0]))
        return out

    def check(self, extra, timeout_ms=None, want_model=False):
        """Satisfiability of pc + extra (+ relevant definitions)."""
        fs = list(self.pc) + list(extra)
        fs = fs + self.cone(fs)
        t0 = time.time()
        res, model = solve(fs, timeout_ms or self.timeout_ms, want_model)
        dt = time.time() - t0
        self.solver_s += dt
        self.queries[res] += 1
        return res, model


_AUX_CACHE = {}


def _aux_names(f, seen):
    """Names of aux!* constants occurring in term f."""
    out = []
    stack = [f]
    while stack:
        t = stack.pop()
        i = t.get_id()
        if i in seen:
            continue
        seen.add(i)
        if z3.is_const(t):
            if t.decl().kind() == z3.Z3_OP_UNINTERPRETED:
                n = t.decl().name()
                if n.startswith("aux!"):
                    out.append(n)
        else:
            stack.extend(t.children())
    return out


def _is_nonlinear(fs):
    seen = set()
    stack = list(fs)
    has_int = False
    nonlin = False
    while stack:
        t = stack.pop()
        i = t.get_id()
        if i in seen:
            continue
        seen.add(i)
        k = t.decl().kind() if z3.is_app(t) else None
        if k == z3.Z3_OP_MUL:
            nvars = sum(0 if z3.is_rational_value(c) or z3.is_int_value(c) else 1
                        for c in t.children())
            if nvars >= 2:
                nonlin = True
        elif k in (z3.Z3_OP_DIV, z3.Z3_OP_IDIV, z3.Z3_OP_POWER):
            ch = t.children()
            if not (z3.is_rational_value(ch[1]) or z3.is_int_value(ch[1])):
                nonlin = True
        if z3.is_app(t) and z3.is_int(t) and not z3.is_int_value(t):
            has_int = True
        if z3.is_app(t):
            stack.extend(t.children())
    return nonlin, has_int


SOLVER_STATS = {"calls": 0, "time": 0.0}


def solve(fs, timeout_ms, want_model=False):
    """One fresh solver per query (incremental z3 falls off nlsat)."""
    SOLVER_STATS["calls"] += 1
    t0 = time.time()
    nonlin, has_int = _is_nonlinear(fs)
    res = "unknown"
    model = None
    attempts = []
    if nonlin and not has_int:
        attempts = [("nlsat", 0.6), ("default", 0.4)]
    else:
        attempts = [("default", 1.0)]
    for kind, share in attempts:
        if kind == "nlsat":
            s = z3.Tactic("qfnra-nlsat").solver()
        else:
            s = z3.Solver()
        s.set("timeout", max(200, int(timeout_ms * share)))
        s.add(*fs)
        try:
            r = s.check()
        except z3.Z3Exception:
            r = z3.unknown
        if r == z3.sat:
            res = "sat"
            try:
                model = s.model()
            except z3.Z3Exception:
                model = None
            break
        if r == z3.unsat:
            res = "unsat"
            break
    SOLVER_STATS["time"] += time.time() - t0
    return res, model


_CTX = [None]


def cur():
    c = _CTX[0]
    if c is None:
        raise RuntimeError("no symx context active")
    return c


def set_ctx(c):
    _CTX[0] = c


def active():
    return _CTX[0] is not None


def count(name, n=1):
    c = cur()
    c.counters[name] = c.counters.get(name, 0) + n


# ---------------------------------------------------------------------------
# decisions


def decide(cond):
    """Truth value of a symbolic condition on the current path."""
    cond = _np_scalar(cond)
    if isinstance(cond, bool):
        return cond
    if isinstance(cond, (int, float, Fraction)):
        return bool(cond)
    if isinstance(cond, (SymReal, SymInt)):
        cond = cond != 0
        if isinstance(cond, bool):
            return cond
    if not isinstance(cond, SymBool):
        return bool(cond)
    ctx = cur()
    t = cond.t
    key = t.get_id()
    if key in ctx.cache:
        return ctx.cache[key]
    ctx.keep.append(t)
    nt = _simp(z3.Not(t))
    ctx.keep.append(nt)
    i = len(ctx.decisions)
    if i >= ctx.max_decisions:
        raise PathAbort("bound", f"more than {ctx.max_decisions} symbolic decisions on one path")
    if i < len(ctx.prefix):
        take = ctx.prefix[i]
        forked = None  # unknown here; decided when first explored
    else:
        # does a known model of the path condition already settle one side?
        side_known = None
        if ctx.model is not None:
            try:
                mv = ctx.model.eval(t, model_completion=True)
                if z3.is_true(mv):
                    side_known = True
                elif z3.is_false(mv):
                    side_known = False
            except z3.Z3Exception:
                side_known = None
        if side_known is True:
            r_t = "sat"
        else:
            r_t, m_t = ctx.check([t], want_model=True)
            if r_t == "sat" and m_t is not None and side_known is None:
                ctx.model = m_t
        if side_known is False:
            r_f = "sat"
        else:
            r_f, m_f = ctx.check([nt], want_model=True)
        feas_t = r_t != "unsat"
        feas_f = r_f != "unsat"
        if r_t == "unknown" or r_f == "unknown":
            ctx.unknown_feasibility += 1
        if not feas_t and not feas_f:
            raise PathAbort("infeasible", "path condition unsatisfiable")
        if feas_t and feas_f:
            take, forked = True, True
        elif feas_t:
            take, forked = True, False
        else:
            take, forked = False, False
        if take is False and side_known is not False and r_f == "sat" and m_f is not None:
            ctx.model = m_f
    ctx.decisions.append((take, forked))
    ctx.pc.append(t if take else nt)
    if ctx.model is not None:
        # keep the model only if it agrees with the branch taken
        try:
            mv = ctx.model.eval(t, model_completion=True)
            ok = z3.is_true(mv) if take else z3.is_false(mv)
            if not ok:
                ctx.model = None
        except z3.Z3Exception:
            ctx.model = None
    ctx.cache[key] = take
    ctx.cache[nt.get_id()] = not take
    return take


def concretize(x, lo=None, hi=None, what="int"):
    """Fork a symbolic integer into concrete values, in increasing order so
    that re-execution is deterministic."""
    if isinstance(x, int):
        return x
    if not isinstance(x, SymInt):
        raise Unsupported(f"concretize {type(x)}")
    if lo is None:
        lo = -2
    if hi is None:
        hi = 64
    for v in range(lo, hi + 1):
        if decide(x == v):
            return v
    raise PathAbort("bound", f"{what} outside [{lo}, {hi}]")


def assume(cond):
    """Constrain inputs (must be called before the code they constrain)."""
    cond = _np_scalar(cond)
    if isinstance(cond, bool):
        if not cond:
            raise PathAbort("assume", "assumption is false")
        return
    ctx = cur()
    ctx.pc.append(bv(cond))
    ctx.model = None


def check_assumptions():
    ctx = cur()
    r, m = ctx.check([], want_model=True)
    if r == "unsat":
        raise PathAbort("assume", "assumptions unsatisfiable")
    if r == "sat":
        ctx.model = m
    return r


# ---------------------------------------------------------------------------
# inputs


def real(name):
    v = z3.Real(name)
    cur().inputs[name] = v
    return SymReal(v)


def integer(name):
    v = z3.Int(name)
    cur().inputs[name] = v
    return SymInt(v)


def boolean(name):
    v = z3.Bool(name)
    cur().inputs[name] = v
    return SymBool(v)


def fresh_real(name):
    """A fresh symbolic real that is *not* a harness input (stub output)."""
    ctx = cur()
    n = ctx.counters.get("fresh", 0)
    ctx.counters["fresh"] = n + 1
    v = z3.Real(f"{name}!{n}")
    ctx.inputs[f"{name}!{n}"] = v
    return SymReal(v)


# ---------------------------------------------------------------------------
# obligations and witnesses


def _model_value(m, v):
    val = m.eval(v, model_completion=True)
    if z3.is_rational_value(val):
        return Fraction(val.numerator_as_long(), val.denominator_as_long())
    if z3.is_int_value(val):
        return val.as_long()
    if z3.is_true(val):
        return True
    if z3.is_false(val):
        return False
    if z3.is_algebraic_value(val):
        ap = val.approx(30)
        return Fraction(ap.numerator_as_long(), ap.denominator_as_long())
    if z3.is_string_value(val):
        return val.as_string()
    return str(val)


def model_inputs(m):
    ctx = cur()
    out = {}
    for name, v in ctx.inputs.items():
        try:
            out[name] = _model_value(m, v)
        except Exception:
            out[name] = None
    return out


def prove(name, formula, timeout_ms=None, info=None):
    """Obligation: `formula` holds for every input on this path."""
    ctx = cur()
    formula = _np_scalar(formula)
    t0 = time.time()
    rec = {"name": name, "info": info}
    if isinstance(formula, bool):
        if formula:
            rec.update(result="unsat", trivial=True, time=0.0)
        else:
            # concretely false on this path: any point of the path is a witness
            r, m = ctx.check([], timeout_ms, want_model=True)
            if r == "sat":
                rec.update(result="sat", model=model_inputs(m))
            elif r == "unsat":
                rec.update(result="unsat", trivial=True)
            else:
                rec.update(result="unknown")
            rec["time"] = time.time() - t0
        ctx.obligations.append(rec)
        return rec["result"] == "unsat"
    neg = z3.Not(bv(formula))
    r, m = ctx.check([neg], timeout_ms, want_model=True)
    if r == "unknown":
        # heavy-tailed NRA queries: one retry with a doubled cap before the
        # obligation is reported inconclusive
        r, m = ctx.check([neg], 2 * (timeout_ms or ctx.timeout_ms), want_model=True)
        rec["retried"] = True
    rec["result"] = r
    if r == "sat" and m is not None:
        rec["model"] = model_inputs(m)
    rec["time"] = time.time() - t0
    try:
        rec["smt_size"] = len(formula.t.sexpr()) if isinstance(formula, SymBool) else 0
    except Exception:
        rec["smt_size"] = -1
    ctx.obligations.append(rec)
    return r == "unsat"


def violated(name, info=None, model=True):
    """The path itself is the violation (e.g. an exception that must not
    happen): obligation `False` under the path condition."""
    return prove(name, False, info=info)


def witness(name, cond=None):
    """Reachability witness: this program point is reached with a satisfiable
    path condition (and, if given, with `cond` true)."""
    ctx = cur()
    if ctx.witnesses.get(name) == "sat":
        return
    if cond is not None:
        if cond is False:
            return
        if cond is not True:
            r, _m = ctx.check([bv(cond)])
            if r == "sat" or ctx.witnesses.get(name) is None:
                ctx.witnesses[name] = r
            return
    if ctx.model is not None:
        ctx.witnesses[name] = "sat"
        return
    r, m = ctx.check([], want_model=True)
    if r == "sat":
        ctx.model = m
    ctx.witnesses[name] = r


def note(msg):
    cur().notes.append(str(msg))


def eq_tol(a, b, rel, scale=None):
    """|a-b| <= rel * |scale| (scale defaults to b)."""
    s = b if scale is None else scale
    d = a - b
    lim = rel * sym_abs(s)
    return (sym_abs(d) <= lim)


def all_of(conds):
    ts = []
    for c in conds:
        c = _np_scalar(c)
        if isinstance(c, bool):
            if not c:
                return False
            continue
        ts.append(bv(c))
    if not ts:
        return True
    return mk_bool(z3.And(*ts))


def any_of(conds):
    ts = []
    for c in conds:
        c = _np_scalar(c)
        if isinstance(c, bool):
            if c:
                return True
            continue
        ts.append(bv(c))
    if not ts:
        return False
    return mk_bool(z3.Or(*ts))


def implies(a, b):
    a = _np_scalar(a)
    b = _np_scalar(b)
    if isinstance(a, bool):
        return b if a else True
    return mk_bool(z3.Implies(bv(a), bv(b)))


def same(a, b):
    """Exact equality obligation on scalars incl. NaN == NaN."""
    a = _np_scalar(a)
    b = _np_scalar(b)
    if is_nan(a) or is_nan(b):
        return is_nan(a) and is_nan(b)
    if isinstance(a, (SymBool, bool)) and isinstance(b, (SymBool, bool)):
        return mk_bool(bv(a) == bv(b))
    r = _cmp(_as_intlike(a), _as_intlike(b), "eq")
    return r


def sym_uf(name, args):
    """Application of an uninterpreted n-ary real function (user models)."""
    f = z3.Function(name, *([z3.RealSort()] * (len(args) + 1)))
    return mk_real(f(*[rv(a) for a in args]))
