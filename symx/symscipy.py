"""scipy.signal / scipy.ndimage shims: exact linear filters, contract stubs
for the IIR filter."""
import types
from fractions import Fraction

from . import core, symnp
from .core import Unsupported

signal = types.ModuleType("scipy.signal")
ndimage = types.ModuleType("scipy.ndimage")


def _reflect_index(i, n):
    # scipy 'reflect' (d c b a | a b c d | d c b a)
    if n == 1:
        return 0
    period = 2 * n
    i = i % period
    if i < 0:
        i += period
    if i >= n:
        i = period - 1 - i
    return i


def _nearest_index(i, n):
    return min(max(i, 0), n - 1)


def uniform_filter1d(x, size, mode="reflect", origin=0):
    x = symnp.asarray(x)
    x._need_dense("uniform_filter1d")
    e = x.elems
    n = len(e)
    if n == 0:
        return symnp.SymArr([])
    size = int(size)
    left = size // 2 + origin
    out = []
    for i in range(n):
        tot = 0
        for j in range(size):
            k = i - left + j
            tot = tot + e[_reflect_index(k, n)]
        out.append(core.sym_div(tot, size))
    return symnp.SymArr(out, dtype=symnp.float64)


def median_filter(x, size=None, mode="reflect"):
    x = symnp.asarray(x)
    x._need_dense("median_filter")
    if isinstance(size, tuple):
        size = size[0]
    size = int(size)
    e = x.elems
    n = len(e)
    idx = _nearest_index if mode == "nearest" else _reflect_index
    out = []
    for i in range(n):
        win = [e[idx(i - size // 2 + j, n)] for j in range(size)]
        out.append(_median(win))
    return symnp.SymArr(out, dtype=symnp.float64)


def _median(win):
    """Order statistic by a sorting network of ite-min/max (no path split).
    The window holds few *distinct* slots at the sizes used, so duplicates
    are merged first: multiset median = weighted median."""
    # group identical slots
    items = []
    for w in win:
        for it in items:
            if it[0] is w:
                it[1] += 1
                break
        else:
            items.append([w, 1])
    vals = [it[0] for it in items]
    wts = [it[1] for it in items]
    total = sum(wts)
    k = total // 2  # rank (0-based) of the median for odd sizes
    # value v is the median iff #(<v) <= k < #(<=v)
    res = None
    for i, v in enumerate(vals):
        less = 0
        leq = 0
        for j, u in enumerate(vals):
            if i == j:
                leq = leq + wts[j]
                continue
            less = less + core.sym_ite(u < v, wts[j], 0)
            leq = leq + core.sym_ite(u <= v, wts[j], 0)
        cond = core.all_of([less <= k, leq > k])
        res = v if res is None else core.sym_ite(cond, v, res)
    return res


def _gauss_weights(sigma, truncate=4.0):
    """scipy.ndimage._gaussian_kernel1d (order 0) in double precision, read
    as exact rationals."""
    import math
    from .core import nice_fraction
    sd = float(sigma)
    radius = int(truncate * sd + 0.5)
    xs = range(-radius, radius + 1)
    phi = [math.exp(-0.5 / (sd * sd) * x * x) for x in xs]
    tot = math.fsum(phi)
    return radius, [Fraction(p / tot) for p in phi]


def gaussian_filter1d(x, sigma, **k):
    """Exact linear filter: out_i = sum_k w_k * x[reflect(i + k)] (scipy's
    kernel weights as rationals, mode='reflect'); coefficients are collected
    per input slot, so the result is a linear form in the inputs."""
    x = symnp.asarray(x)
    x._need_dense("gaussian_filter1d")
    e = x.elems
    n = len(e)
    if n == 0:
        return symnp.SymArr([])
    if core.is_sym(sigma):
        raise Unsupported("symbolic sigma")
    radius, w = _gauss_weights(sigma)
    out = []
    for i in range(n):
        coef = [Fraction(0)] * n
        for j, wk in enumerate(w):
            coef[_reflect_index(i + j - radius, n)] += wk
        tot = 0
        for c, v in zip(coef, e):
            if c:
                tot = tot + c * v
        out.append(tot)
    return symnp.SymArr(out, dtype=symnp.float64)


ndimage.uniform_filter1d = uniform_filter1d
ndimage.median_filter = median_filter
ndimage.gaussian_filter1d = gaussian_filter1d


def butter(*a, **k):
    return ("b", "a")


def filtfilt(b, a, x, **k):
    """Contract stub: an arbitrary array of the input's length."""
    x = symnp.asarray(x)
    return symnp.SymArr([core.fresh_real("filt") for _ in range(len(x._idx))])


signal.butter = butter
signal.filtfilt = filtfilt
