"""symnp: the subset of numpy used by the encoded nanite functions, over
symx scalars.  1-D arrays of *concrete length* whose elements are concrete
numbers (Fraction / int / bool / float nan,inf) or symbolic scalars.

A boolean-mask selection with a symbolic mask stays *positional*: the result
has the same slots plus a presence bit per slot (`present`), so that
`bb[pos] = f(root[pos])` is an if-then-else merge, not a path split.
"""
import math
import builtins as _b
from fractions import Fraction

import z3

from . import core
from .core import (SymReal, SymInt, SymBool, Unsupported, decide, sym_ite,
                   sym_abs, sym_sqrt, sym_div, is_nan, is_inf, is_sym,
                   mk_bool, mk_int, mk_real, nice_fraction, concretize)

pi = nice_fraction(math.pi)   # exact rational reading of the double
nan = float("nan")
inf = float("inf")
newaxis = None


class _DType:
    def __init__(self, name, kind):
        self.name = name
        self.kind = kind

    def __call__(self, x=0):
        if isinstance(x, SymArr):
            return x.astype(self)
        if self.kind == "b":
            return x if isinstance(x, SymBool) else bool(x)
        if self.kind in "iu":
            return core.sym_trunc(x) if is_sym(x) else int(x)
        return _conc(x)

    def __repr__(self):
        return f"symnp.{self.name}"

    def __eq__(self, o):
        if isinstance(o, _DType):
            return self.name == o.name
        if o is float:
            return self.kind == "f"
        if o is int:
            return self.kind == "i"
        if o is bool:
            return self.kind == "b"
        return NotImplemented

    def __hash__(self):
        return hash(self.name)


float64 = _DType("float64", "f")
float32 = _DType("float32", "f")
int64 = _DType("int64", "i")
int32 = _DType("int32", "i")
uint8 = _DType("uint8", "u")
bool_ = _DType("bool", "b")
integer = int64
floating = float64
number = float64


def _dtype_of(dt):
    if dt is None:
        return None
    if isinstance(dt, _DType):
        return dt
    if dt is float:
        return float64
    if dt is int:
        return int64
    if dt is bool:
        return bool_
    nm = getattr(dt, "__name__", None)
    if nm in ("s_int", "s_float", "s_bool"):
        return {"s_int": int64, "s_float": float64, "s_bool": bool_}[nm]
    if isinstance(dt, str):
        return {"float": float64, "int": int64, "bool": bool_,
                "float64": float64, "uint8": uint8}[dt]
    raise Unsupported(f"dtype {dt}")


def _conc(x):
    """Normalise a concrete scalar."""
    x = core._np_scalar(x)
    if isinstance(x, (SymReal, SymInt, SymBool)):
        return x
    if hasattr(x, "__symx_value__"):
        return x.__symx_value__()
    if isinstance(x, bool):
        return x
    if isinstance(x, int):
        return x
    if isinstance(x, Fraction):
        return x
    if isinstance(x, float):
        if math.isnan(x) or math.isinf(x):
            return x
        return nice_fraction(x)
    raise Unsupported(f"array element of type {type(x)}")


def _elem_kind(e):
    if isinstance(e, (bool, SymBool)):
        return "b"
    if isinstance(e, (int, SymInt)):
        return "i"
    return "f"


def _infer_dtype(elems):
    kinds = {_elem_kind(e) for e in elems}
    if "f" in kinds or not kinds:
        return float64
    if "i" in kinds:
        return int64
    return bool_


def _cast(e, dt):
    if dt.kind == "f":
        if isinstance(e, (bool,)):
            return Fraction(int(e))
        if isinstance(e, int):
            return Fraction(e)
        if isinstance(e, SymBool):
            return mk_real(core.rv(e))
        if isinstance(e, SymInt):
            return mk_real(core.rv(e))
        return e
    if dt.kind in "iu":
        if isinstance(e, bool):
            return int(e)
        if isinstance(e, SymBool):
            return mk_int(core.iv(e))
        if isinstance(e, (int, SymInt)):
            return e
        if is_nan(e) or is_inf(e):
            raise Unsupported("cast of nan/inf to int")
        return core.sym_trunc(e)
    if dt.kind == "b":
        if isinstance(e, (bool, SymBool)):
            return e
        if is_sym(e):
            return e != 0
        if is_nan(e):
            return True
        return bool(e)
    raise Unsupported(dt)


class _Flags:
    def __init__(self):
        self.writeable = True


class SymArr:
    __array_priority__ = 2000

    def __init__(self, elems, dtype=None, present=None, _store=None, _idx=None):
        if _store is not None:
            self._store = _store
            self._idx = _idx
        else:
            elems = [_conc(e) for e in elems]
            dt = _dtype_of(dtype) or _infer_dtype(elems)
            self._store = [_cast(e, dt) for e in elems]
            self._idx = list(range(len(elems)))
            dtype = dt
        self.dtype = _dtype_of(dtype) if dtype is not None else float64
        self.present = present      # None or list of bool/SymBool (copy arrays only)
        self.flags = _Flags()
        self._wflag_owner = self

    # -- basics -------------------------------------------------------------
    @property
    def elems(self):
        st = self._store
        return [st[i] for i in self._idx]

    def _set(self, k, v):
        if not self.flags.writeable:
            raise ValueError("assignment destination is read-only")
        self._store[self._idx[k]] = _cast(_conc(v), self.dtype)

    def __len__(self):
        if self.present is not None:
            return concretize(self._count(), 0, len(self._idx), "len of selection")
        return len(self._idx)

    def _count(self):
        if self.present is None:
            return len(self._idx)
        tot = 0
        for p in self.present:
            tot = tot + (core._as_intlike(p) if isinstance(p, SymBool) else int(p))
        return tot

    @property
    def size(self):
        return self._count()

    @property
    def shape(self):
        return (self._count(),)

    @property
    def ndim(self):
        return 1

    @property
    def T(self):
        return self

    def setflags(self, write=None):
        if write is not None:
            self.flags.writeable = bool(write)

    def copy(self):
        return SymArr(self.elems, dtype=self.dtype,
                      present=None if self.present is None else list(self.present))

    def __copy__(self):
        return self.copy()

    def __deepcopy__(self, memo):
        return self.copy()

    def astype(self, dt):
        dt = _dtype_of(dt)
        return SymArr([_cast(e, dt) for e in self.elems], dtype=dt,
                      present=None if self.present is None else list(self.present))

    def flatten(self):
        return self.copy()

    def ravel(self):
        return self

    def tolist(self):
        self._need_dense("tolist")
        return list(self.elems)

    def __iter__(self):
        self._need_dense("iteration")
        return iter(self.elems)

    def __repr__(self):
        return f"SymArr({self.elems}, present={self.present})"

    def __array__(self, *a, **k):
        raise Unsupported("a symbolic array reached real numpy")

    def __bool__(self):
        if self.present is None and len(self._idx) == 1:
            return decide(self.elems[0])
        raise ValueError("The truth value of an array with more than one "
                         "element is ambiguous.")

    def __contains__(self, v):
        return _b.any(decide(e == v) for e in self.compact().elems)

    def _need_dense(self, what):
        if self.present is not None:
            c = self.compact()
            self._store, self._idx, self.present = c._store, c._idx, None

    def compact(self):
        """Materialise a positional selection (forks on symbolic presence)."""
        if self.present is None:
            return self
        keep = [e for e, p in zip(self.elems, self.present) if decide(p)]
        return SymArr(keep, dtype=self.dtype)

    def tobytes(self):
        raise Unsupported("tobytes of a symbolic array (use harness token)")

    # -- indexing -------------------------------------------------------------
    def _norm_index(self, k, n):
        if isinstance(k, SymInt):
            k = concretize(k, -n, n - 1, "array index")
        k = core._np_scalar(k)
        if isinstance(k, bool) or not isinstance(k, int):
            raise Unsupported(f"index {type(k)}")
        if k < 0:
            k += n
        if not 0 <= k < n:
            raise IndexError(f"index {k} is out of bounds for axis 0 with size {n}")
        return k

    def _norm_slice(self, s, n):
        def c(v):
            if isinstance(v, SymInt):
                return concretize(v, -n - 26, n + 26, "slice bound")
            v = core._np_scalar(v)
            if v is not None and not isinstance(v, int):
                raise TypeError("slice indices must be integers")
            return v
        return slice(c(s.start), c(s.stop), c(s.step))

    def __getitem__(self, k):
        if isinstance(k, tuple):
            if len(k) == 1:
                k = k[0]
            elif k == (Ellipsis,):
                k = Ellipsis
            else:
                raise Unsupported(f"nd index {k}")
        if k is Ellipsis:
            return self
        if isinstance(k, slice):
            if self.present is not None:
                s = self._norm_slice(k, len(self._idx))
                if (s.start, s.stop) == (None, None) and s.step in (None, 1, -1):
                    st = s.step or 1
                    return SymArr(self.elems[::st], dtype=self.dtype,
                                  present=self.present[::st])
            self._need_dense("slice")
            s = self._norm_slice(k, len(self._idx))
            out = SymArr(None, dtype=self.dtype, _store=self._store, _idx=self._idx[s])
            out.flags = self.flags  # views share writeability of the base
            return out
        if isinstance(k, SymArr):
            if k.dtype.kind == "b":
                return self._mask_get(k)
            self._need_dense("fancy index")
            k._need_dense("fancy index")
            n = len(self._idx)
            return SymArr([self.elems[self._norm_index(i, n)] for i in k.elems],
                          dtype=self.dtype)
        if isinstance(k, (list,)):
            if k and _b.all(isinstance(i, (bool, SymBool)) for i in k):
                return self._mask_get(SymArr(k, dtype=bool_))
            self._need_dense("fancy index")
            n = len(self._idx)
            return SymArr([self.elems[self._norm_index(i, n)] for i in k],
                          dtype=self.dtype)
        if self.present is not None and isinstance(k, int) and k in (0, -1):
            return self._edge_present(k)
        self._need_dense("int index")
        k = self._norm_index(k, len(self._idx))
        return self._store[self._idx[k]]

    def _edge_present(self, k):
        """First (k=0) / last (k=-1) present element as an ite chain."""
        if decide(self._count() == 0):
            raise IndexError("index %d is out of bounds for axis 0 with size 0" % k)
        es, ps = self.elems, self.present
        order = range(len(es)) if k == -1 else range(len(es) - 1, -1, -1)
        res = None
        for i in order:
            # later assignments win: iterate so that the wanted edge is last
            res = es[i] if res is None else sym_ite(ps[i], es[i], res)
        return res

    def _mask_get(self, mask):
        if len(mask._idx) != len(self._idx):
            raise IndexError("boolean index did not match indexed array")
        if self.present is not None or mask.present is not None:
            # selection of a positional selection: presence bits compose
            if mask.present is not None and self.present is not None \
                    and not _same_mask(self.present, mask.present):
                raise Unsupported("mask and array are differently masked selections")
            base = self.present if self.present is not None else mask.present
            pres = [_and(p, m) for p, m in zip(base, mask.elems)]
            return SymArr(self.elems, dtype=self.dtype, present=pres)
        m = mask.elems
        if _b.all(isinstance(b, bool) for b in m):
            return SymArr([e for e, b in zip(self.elems, m) if b], dtype=self.dtype)
        return SymArr(self.elems, dtype=self.dtype, present=list(m))

    def __setitem__(self, k, v):
        if not self.flags.writeable:
            raise ValueError("assignment destination is read-only")
        if isinstance(k, tuple) and len(k) == 1:
            k = k[0]
        if hasattr(v, "__symx_value__"):
            v = v.__symx_value__()
        if self.present is not None:
            return self._setitem_positional(k, v)
        n = len(self._idx)
        if k is Ellipsis:
            k = slice(None)
        if isinstance(k, slice):
            s = self._norm_slice(k, n)
            pos = list(range(n))[s]
            vals = self._bcast(v, len(pos))
            for p, x in zip(pos, vals):
                self._set(p, x)
            return
        if isinstance(k, list) and k and _b.all(isinstance(i, (bool, SymBool)) for i in k):
            k = SymArr(k, dtype=bool_)
        if isinstance(k, SymArr) and k.dtype.kind == "b":
            k._need_dense("mask")
            if len(k._idx) != n:
                raise IndexError("boolean index did not match indexed array")
            m = k.elems
            if isinstance(v, SymArr):
                if v.present is not None:
                    # positional: same mask expected
                    if len(v._idx) != n:
                        raise Unsupported("positional value of other length")
                    if not _same_mask(v.present, m):
                        raise Unsupported("mask set with a differently masked value")
                    ve = v.elems
                    for i in range(n):
                        self._set(i, sym_ite(m[i], ve[i], self.elems[i]))
                    return
                if _b.all(isinstance(b, bool) for b in m):
                    pos = [i for i, b in enumerate(m) if b]
                    vals = self._bcast(v, len(pos))
                    for p, x in zip(pos, vals):
                        self._set(p, x)
                    return
                # symbolic mask with dense value: needs compaction order
                pos = [i for i, b in enumerate(m) if decide(b)]
                vals = self._bcast(v, len(pos))
                for p, x in zip(pos, vals):
                    self._set(p, x)
                return
            v = _conc(v)
            cur = self.elems
            for i in range(n):
                self._set(i, sym_ite(m[i], v, cur[i]))
            return
        if isinstance(k, (list, SymArr)):
            idxs = k.elems if isinstance(k, SymArr) else k
            vals = self._bcast(v, len(idxs))
            for i, x in zip(idxs, vals):
                self._set(self._norm_index(i, n), x)
            return
        k = self._norm_index(k, n)
        if isinstance(v, SymArr):
            v._need_dense("scalar set")
            if len(v._idx) != 1:
                raise ValueError("setting an array element with a sequence.")
            v = v.elems[0]
        self._set(k, v)

    def _setitem_positional(self, k, v):
        n = len(self._idx)
        if k is Ellipsis or (isinstance(k, slice) and k == slice(None)):
            if isinstance(v, SymArr):
                if v.present is None or not _same_mask(v.present, self.present):
                    raise Unsupported("[:] = array on a positional selection")
                for i, x in enumerate(v.elems):
                    self._set(i, x)
                return
            for i in range(n):
                self._set(i, v)
            return
        if isinstance(k, SymArr) and k.dtype.kind == "b" and len(k._idx) == n:
            m = k.elems
            cur = self.elems
            if isinstance(v, SymArr):
                want = [_and(p, b) for p, b in zip(self.present, m)]
                if v.present is None or len(v._idx) != n or not _same_mask(v.present, want):
                    raise Unsupported("masked set on a positional selection with an unaligned value")
                ve = v.elems
                for i in range(n):
                    self._set(i, sym_ite(m[i], ve[i], cur[i]))
                return
            v = _conc(v)
            for i in range(n):
                self._set(i, sym_ite(m[i], v, cur[i]))
            return
        self._need_dense("setitem")
        return self.__setitem__(k, v)

    def _bcast(self, v, m):
        if isinstance(v, SymArr):
            v._need_dense("broadcast")
            if len(v._idx) == m:
                return v.elems
            if len(v._idx) == 1:
                return v.elems * m
            raise ValueError(f"could not broadcast input array from shape "
                             f"({len(v._idx)},) into shape ({m},)")
        if isinstance(v, (list, tuple)):
            if len(v) == m:
                return [_conc(x) for x in v]
            if len(v) == 1:
                return [_conc(v[0])] * m
            raise ValueError("could not broadcast input array")
        return [_conc(v)] * m

    # -- elementwise ------------------------------------------------------------
    def _binop(self, other, f, out_dtype=None, swap=False):
        if hasattr(other, "__symx_value__"):
            other = other.__symx_value__()
        a = self.elems
        pres = self.present
        if isinstance(other, (list, tuple)):
            other = SymArr(other)
        if isinstance(other, SymArr):
            b = other.elems
            if len(a) != len(b):
                if len(b) == 1 and other.present is None:
                    b = b * len(a)
                elif len(a) == 1 and self.present is None:
                    a = a * len(b)
                    pres = other.present
                else:
                    raise ValueError(f"operands could not be broadcast together "
                                     f"with shapes ({len(a)},) ({len(b)},)")
            elif self.present is not None and other.present is not None:
                if not _same_mask(self.present, other.present):
                    raise Unsupported("operation on differently masked selections")
            elif (self.present is None) != (other.present is None):
                if len(a) != 1:
                    raise Unsupported("dense array combined with a positional selection")
        else:
            o = _conc(other)
            b = [o] * len(a)
        if swap:
            vals = [f(y, x) for x, y in zip(a, b)]
        else:
            vals = [f(x, y) for x, y in zip(a, b)]
        return SymArr(vals, dtype=out_dtype, present=None if pres is None else list(pres))

    def __add__(self, o): return self._binop(o, _add)
    def __radd__(self, o): return self._binop(o, _add, swap=True)
    def __sub__(self, o): return self._binop(o, _sub)
    def __rsub__(self, o): return self._binop(o, _sub, swap=True)
    def __mul__(self, o): return self._binop(o, _mul)
    def __rmul__(self, o): return self._binop(o, _mul, swap=True)
    def __truediv__(self, o): return self._binop(o, _div, out_dtype=float64)
    def __rtruediv__(self, o): return self._binop(o, _div, out_dtype=float64, swap=True)
    def __floordiv__(self, o): return self._binop(o, lambda x, y: x // y)
    def __pow__(self, o): return self._binop(o, core.sym_pow)
    def __rpow__(self, o): return self._binop(o, core.sym_pow, swap=True)
    def __neg__(self): return self._unop(lambda x: -x if not isinstance(x, bool) else -int(x))
    def __pos__(self): return self
    def __abs__(self): return self._unop(sym_abs)
    def __lt__(self, o): return self._binop(o, lambda x, y: core._dispatch(x, y, "lt"), bool_)
    def __le__(self, o): return self._binop(o, lambda x, y: core._dispatch(x, y, "le"), bool_)
    def __gt__(self, o): return self._binop(o, lambda x, y: core._dispatch(x, y, "gt"), bool_)
    def __ge__(self, o): return self._binop(o, lambda x, y: core._dispatch(x, y, "ge"), bool_)

    def __eq__(self, o):
        if o is None or isinstance(o, str):
            return False
        return self._binop(o, _eq, bool_)

    def __ne__(self, o):
        if o is None or isinstance(o, str):
            return True
        return self._binop(o, lambda x, y: _not(_eq(x, y)), bool_)
    __hash__ = None

    def __invert__(self):
        if self.dtype.kind != "b":
            raise Unsupported("bitwise invert of non-bool array")
        return self._unop(_not, bool_)

    def __and__(self, o): return self._binop(o, _and, bool_)
    __rand__ = __and__
    def __or__(self, o): return self._binop(o, _or, bool_)
    __ror__ = __or__

    def _unop(self, f, dtype=None):
        return SymArr([f(x) for x in self.elems], dtype=dtype or self.dtype,
                      present=None if self.present is None else list(self.present))

    def _inplace(self, other, f):
        if not self.flags.writeable:
            raise ValueError("output array is read-only")
        res = self._binop(other, f)
        if self.present is not None:
            self._store = res._store
            self._idx = res._idx
            return self
        if self.dtype.kind in "iu" and res.dtype.kind == "f":
            raise TypeError("Cannot cast ufunc output from float64 to int")
        for i, x in enumerate(res.elems):
            self._set(i, x)
        return self

    def __iadd__(self, o): return self._inplace(o, _add)
    def __isub__(self, o): return self._inplace(o, _sub)
    def __imul__(self, o): return self._inplace(o, _mul)
    def __itruediv__(self, o): return self._inplace(o, _div)

    # -- reductions --------------------------------------------------------------
    def _present_list(self):
        return self.present if self.present is not None else [True] * len(self._idx)

    def _nonempty(self, what):
        c = self._count()
        if decide(c == 0):
            raise ValueError(f"zero-size array to reduction operation {what} "
                             "which has no identity")

    def min(self, axis=None):
        return _fold_minmax(self, "min")

    def max(self, axis=None):
        return _fold_minmax(self, "max")

    def sum(self, axis=None):
        tot = 0
        for e, p in zip(self.elems, self._present_list()):
            if isinstance(e, (bool, SymBool)):
                e = core._as_intlike(e) if isinstance(e, SymBool) else int(e)
            if p is True:
                tot = _add(tot, e)
            elif p is False:
                continue
            else:
                tot = _add(tot, sym_ite(p, e, 0))
        return tot

    def mean(self, axis=None):
        c = self._count()
        if decide(c == 0):
            return float("nan")
        return _div(self.sum(), c)

    def std(self):
        return std(self)

    def argmin(self, axis=None):
        return _arg_minmax(self, "min")

    def argmax(self, axis=None):
        return _arg_minmax(self, "max")

    def any(self):
        return any_(self)

    def all(self):
        return all_(self)

    def item(self):
        self._need_dense("item")
        if len(self._idx) != 1:
            raise ValueError("can only convert an array of size 1")
        return self.elems[0]


def _same_mask(m1, m2):
    if len(m1) != len(m2):
        return False
    for a, b in zip(m1, m2):
        if a is b:
            continue
        if isinstance(a, bool) or isinstance(b, bool):
            if isinstance(a, bool) and isinstance(b, bool) and a == b:
                continue
            return False
        if not z3.eq(a.t, b.t):
            return False
    return True


def _add(x, y): return core._dispatch(_b2i(x), _b2i(y), "add")
def _sub(x, y): return core._dispatch(_b2i(x), _b2i(y), "sub")
def _mul(x, y): return core._dispatch(_b2i(x), _b2i(y), "mul")
def _div(x, y): return core.sym_div(_b2i(x), _b2i(y))


def _b2i(x):
    if isinstance(x, bool):
        return int(x)
    if isinstance(x, SymBool):
        return core._as_intlike(x)
    return x


def _eq(x, y):
    if isinstance(x, (bool, SymBool)) and isinstance(y, (bool, SymBool)):
        if isinstance(x, bool) and isinstance(y, bool):
            return x == y
        return mk_bool(core.bv(x) == core.bv(y))
    return core._dispatch(_b2i(x), _b2i(y), "eq")


def _not(x):
    if isinstance(x, bool):
        return not x
    if isinstance(x, SymBool):
        return ~x
    return _not(_cast(x, bool_))


def _and(x, y):
    x = _cast(x, bool_)
    y = _cast(y, bool_)
    if isinstance(x, bool):
        return y if x else False
    if isinstance(y, bool):
        return x if y else False
    return x & y


def _or(x, y):
    x = _cast(x, bool_)
    y = _cast(y, bool_)
    if isinstance(x, bool):
        return True if x else y
    if isinstance(y, bool):
        return True if y else x
    return x | y


def _fold_minmax(a, which, skipnan=False):
    a = asarray(a)
    a._nonempty(which)
    best = None
    have = False   # python bool or SymBool: a present element was seen
    for e, p in zip(a.elems, a._present_list()):
        if p is False:
            continue
        if is_nan(e):
            if skipnan:
                continue
            if p is True:
                return float("nan")
            if decide(p):
                return float("nan")
            continue
        if best is None:
            if p is True:
                best, have = e, True
            else:
                best, have = e, p
            continue
        better = (e < best) if which == "min" else (e > best)
        if p is True:
            if have is True:
                best = sym_ite(better, e, best)
            else:
                best = sym_ite(_or(_not(have), better), e, best)
                have = True
        else:
            if have is True:
                best = sym_ite(_and(p, better), e, best)
            else:
                best = sym_ite(_and(p, _or(_not(have), better)), e, best)
                have = _or(have, p)
    if best is None:
        return float("nan")
    return best


def _arg_minmax(a, which, skipnan=False):
    a = asarray(a)
    a._need_dense("argmin/argmax")
    n = len(a._idx)
    if n == 0:
        raise ValueError(f"attempt to get arg{which} of an empty sequence")
    es = a.elems
    if not skipnan:
        for i, e in enumerate(es):
            if is_nan(e):
                return i
    best = None
    idx = 0
    for i, e in enumerate(es):
        if is_nan(e):
            continue
        if isinstance(e, (bool, SymBool)):
            e = _b2i(e)
        if best is None:
            best, idx = e, i
            continue
        c = (e < best) if which == "min" else (e > best)
        best = sym_ite(c, e, best)
        idx = sym_ite(c, i, idx)
    if best is None:
        raise ValueError("All-NaN slice encountered")
    return idx


# ---------------------------------------------------------------------------
# module-level functions


class ndarray(SymArr):
    pass


def _is_arr(x):
    return isinstance(x, SymArr)


def array(x, dtype=None, copy=True, ndmin=0):
    if hasattr(x, "__symx_array__"):
        x = x.__symx_array__()
    if isinstance(x, SymArr):
        if dtype is not None and _dtype_of(dtype) != x.dtype:
            return x.astype(dtype)
        return x.copy() if copy else x
    if isinstance(x, (list, tuple)):
        if x and _b.all(isinstance(e, (list, tuple, SymArr)) for e in x):
            from .symnp2d import Sym2D
            return Sym2D.from_rows([asarray(r) for r in x], dtype=dtype)
        return SymArr(list(x), dtype=dtype)
    if hasattr(x, "__symx_value__"):
        x = x.__symx_value__()
    if type(x).__module__ == "numpy" and hasattr(x, "tolist") and getattr(x, "ndim", 0) >= 1:
        return SymArr(x.tolist(), dtype=dtype)
    # 0-d
    return _Scalar0(_conc(x)) if False else _conc(x)


def asarray(x, dtype=None):
    return array(x, dtype=dtype, copy=False)


def copy(x):
    return asarray(x).copy()


def zeros(n, dtype=float):
    n = _shape1(n)
    dt = _dtype_of(dtype)
    z = {"f": Fraction(0), "i": 0, "u": 0, "b": False}[dt.kind]
    return SymArr([z] * n, dtype=dt)


def ones(n, dtype=float):
    n = _shape1(n)
    dt = _dtype_of(dtype)
    o = {"f": Fraction(1), "i": 1, "u": 1, "b": True}[dt.kind]
    return SymArr([o] * n, dtype=dt)


def _shape1(n):
    if isinstance(n, tuple):
        if len(n) != 1:
            raise Unsupported("nd shape")
        n = n[0]
    if isinstance(n, SymInt):
        n = concretize(n, 0, 256, "array size")
    return int(n)


def zeros_like(a, dtype=None):
    a = asarray(a)
    if a.present is not None:
        z = zeros(len(a._idx), dtype or a.dtype)
        z.present = list(a.present)
        return z
    return zeros(len(a._idx), dtype or a.dtype)


def ones_like(a, dtype=None):
    return ones(len(asarray(a)._idx), dtype or a.dtype)


def full(n, v):
    return SymArr([v] * _shape1(n))


def empty(n, dtype=float):
    return zeros(n, dtype)


def arange(*args):
    if _b.any(isinstance(a, SymInt) for a in args):
        args = [concretize(a, -2, 256, "arange bound") if isinstance(a, SymInt) else a
                for a in args]
    return SymArr(list(range(*[int(a) for a in args])), dtype=int64)


def linspace(start, stop, num=50, endpoint=True, retstep=False):
    if isinstance(num, SymInt):
        num = concretize(num, 0, 256, "linspace num")
    num = int(num)
    div = (num - 1) if endpoint else num
    start = _conc(start)
    stop = _conc(stop)
    if num == 0:
        out = SymArr([])
        return (out, float("nan")) if retstep else out
    if div > 0:
        step = _div(_sub(stop, start), div)
        vals = [_add(start, _mul(i, step)) for i in range(num)]
        if endpoint and num > 1:
            vals[-1] = stop
    else:
        step = float("nan")
        vals = [start] * num
    out = SymArr(vals, dtype=float64)
    return (out, step) if retstep else out


def _map(f):
    def g(x, *a, **k):
        if hasattr(x, "__symx_value__"):
            x = x.__symx_value__()
        if isinstance(x, SymArr):
            return x._unop(f, float64)
        if isinstance(x, (list, tuple)):
            return SymArr(list(x))._unop(f, float64)
        return f(_conc(x))
    return g


sqrt = _map(sym_sqrt)


def _abs1(x):
    return sym_abs(_b2i(x))


def abs(x):
    if isinstance(x, SymArr):
        return x._unop(_abs1)
    if hasattr(x, "__symx_value__"):
        x = x.__symx_value__()
    return _abs1(_conc(x))


absolute = abs
fabs = abs


def _tan1(x):
    if not is_sym(x):
        if is_nan(x):
            return x
        return nice_fraction(math.tan(float(x)))
    return core.sym_fun("tan", x)


tan = _map(_tan1)


def _log1(x):
    if is_nan(x):
        return x
    if is_inf(x):
        return x if x > 0 else float("nan")
    if not is_sym(x):
        fx = nice_fraction(x) if not is_inf(x) else x
        if fx == 1:
            return Fraction(0)
        if fx == 0:
            return float("-inf")
        if fx < 0:
            return float("nan")
    if is_sym(x):
        if decide(x <= 0):
            if decide(x == 0):
                return float("-inf")
            return float("nan")
    return core.sym_fun(
        "log", x,
        lambda v, a: z3.And(z3.Implies(a >= 1, v >= 0), z3.Implies(a <= 1, v <= 0),
                            z3.Implies(a == 1, v == 0), v <= a - 1))


log = _map(_log1)


def _sin1(x):
    if not is_sym(x):
        return nice_fraction(math.sin(float(x)))
    return core.sym_fun("sin", x)


def _cos1(x):
    if not is_sym(x):
        return nice_fraction(math.cos(float(x)))
    return core.sym_fun("cos", x)


sin = _map(_sin1)
cos = _map(_cos1)


def _sign1(x):
    if is_nan(x):
        return x
    if not is_sym(x):
        return (x > 0) - (x < 0)
    return sym_ite(x > 0, 1, sym_ite(x < 0, -1, 0))


sign = _map(_sign1)


def _isnan1(x):
    return is_nan(x)


def _is2d(x):
    return type(x).__name__ == "Sym2D"


def _map2d(x, f, dtype=None):
    from .symnp2d import Sym2D
    return Sym2D([r._unop(f, dtype) for r in x.rows], ncols=x.ncols)


def isnan(x):
    if _is2d(x):
        return _map2d(x, _isnan1, bool_)
    if isinstance(x, SymArr):
        return x._unop(_isnan1, bool_)
    if hasattr(x, "__symx_value__"):
        x = x.__symx_value__()
    return is_nan(x)


def isinf(x):
    if _is2d(x):
        return _map2d(x, is_inf, bool_)
    if isinstance(x, SymArr):
        return x._unop(is_inf, bool_)
    if hasattr(x, "__symx_value__"):
        x = x.__symx_value__()
    return is_inf(x)


def isposinf(x):
    f = lambda e: is_inf(e) and e > 0
    return x._unop(f, bool_) if isinstance(x, SymArr) else f(x)


def isneginf(x):
    f = lambda e: is_inf(e) and e < 0
    return x._unop(f, bool_) if isinstance(x, SymArr) else f(x)


def isfinite(x):
    f = lambda e: not (is_inf(e) or is_nan(e))
    return x._unop(f, bool_) if isinstance(x, SymArr) else f(x)


def sum(x, axis=None):
    if _is2d(x):
        if axis == 1:
            return SymArr([r.sum() for r in x.rows])
        if axis == 0:
            return SymArr([x.col(j).sum() for j in range(x.ncols)])
        return x.flatten().sum()
    if isinstance(x, (list, tuple)):
        x = SymArr(list(x)) if x else SymArr([], dtype=float64)
    if isinstance(x, SymArr):
        return x.sum()
    return _b2i(_conc(x))


def nansum(x):
    x = asarray(x)
    return SymArr([0 if is_nan(e) else e for e in x.elems], present=x.present).sum()


def min(x, axis=None):
    if isinstance(x, (list, tuple)):
        x = SymArr(list(x))
    if not isinstance(x, SymArr):
        return _conc(x)
    return _fold_minmax(x, "min")


def max(x, axis=None):
    if isinstance(x, (list, tuple)):
        x = SymArr(list(x))
    if not isinstance(x, SymArr):
        return _conc(x)
    return _fold_minmax(x, "max")


amin, amax = min, max


def ptp(x, axis=None):
    x = asarray(x)
    return _sub(_fold_minmax(x, "max"), _fold_minmax(x, "min"))


def nanmax(x):
    x = asarray(x)
    x._nonempty("fmax")
    return _fold_minmax(x, "max", skipnan=True)


def nanmin(x):
    x = asarray(x)
    x._nonempty("fmin")
    return _fold_minmax(x, "min", skipnan=True)


def argmin(x, axis=None):
    return _arg_minmax(x, "min")


def argmax(x, axis=None):
    return _arg_minmax(x, "max")


def nanargmin(x):
    return _arg_minmax(x, "min", skipnan=True)


def nanargmax(x):
    return _arg_minmax(x, "max", skipnan=True)


def mean(x, axis=None):
    return asarray(x).mean()


def average(x, axis=None, weights=None):
    if weights is not None:
        raise Unsupported("weighted average")
    return asarray(x).mean()


def std(x):
    x = asarray(x)
    m = x.mean()
    if is_nan(m):
        return m
    d = x - m
    return sym_sqrt((d * d).mean())


def _reduce2d(x, axis, f):
    """any/all of a 2-D array along an axis (None: over everything)."""
    rows = list(x.rows)
    if axis is None:
        return f(SymArr([e for r in rows for e in r.elems], dtype=bool_))
    if axis in (1, -1):
        return SymArr([f(r) for r in rows], dtype=bool_)
    return SymArr([f(SymArr([r.elems[j] for r in rows], dtype=bool_)) for j in range(x.ncols)], dtype=bool_)


def any_(x, axis=None):
    if _is2d(x):
        return _reduce2d(x, axis, any_)
    x = asarray(x)
    acc = False
    for e, p in zip(x.elems, x._present_list()):
        acc = _or(acc, _and(p, _cast(e, bool_)))
    return acc


def all_(x, axis=None):
    if _is2d(x):
        return _reduce2d(x, axis, all_)
    x = asarray(x)
    acc = True
    for e, p in zip(x.elems, x._present_list()):
        acc = _and(acc, _or(_not(p), _cast(e, bool_)))
    return acc


any = any_
all = all_


def logical_and(a, b):
    return asarray(a)._binop(b, _and, bool_)


def logical_or(a, b):
    return asarray(a)._binop(b, _or, bool_)


def logical_not(a):
    return asarray(a)._unop(_not, bool_)


def maximum(a, b):
    f = lambda x, y: (float("nan") if is_nan(x) or is_nan(y) else sym_ite(x >= y, x, y))
    if isinstance(a, SymArr):
        return a._binop(b, f)
    if isinstance(b, SymArr):
        return b._binop(a, f, swap=True)
    return f(_conc(a), _conc(b))


def minimum(a, b):
    f = lambda x, y: (float("nan") if is_nan(x) or is_nan(y) else sym_ite(x <= y, x, y))
    if isinstance(a, SymArr):
        return a._binop(b, f)
    if isinstance(b, SymArr):
        return b._binop(a, f, swap=True)
    return f(_conc(a), _conc(b))


def where(c, a=None, b=None):
    c = asarray(c)
    if a is None:
        c._need_dense("where")
        idx = [i for i, e in enumerate(c.elems) if decide(_cast(e, bool_))]
        return (SymArr(idx, dtype=int64),)
    av = asarray(a).elems if isinstance(a, (SymArr, list)) else [_conc(a)] * len(c._idx)
    bvs = asarray(b).elems if isinstance(b, (SymArr, list)) else [_conc(b)] * len(c._idx)
    return SymArr([sym_ite(_cast(m, bool_), x, y) for m, x, y in zip(c.elems, av, bvs)])


def gradient(y):
    y = asarray(y)
    y._need_dense("gradient")
    e = y.elems
    n = len(e)
    if n < 2:
        raise ValueError("Shape of array too small to calculate a numerical "
                         "gradient, at least (edge_order + 1) elements are required.")
    out = [_sub(e[1], e[0])]
    for i in range(1, n - 1):
        out.append(_div(_sub(e[i + 1], e[i - 1]), 2))
    out.append(_sub(e[n - 1], e[n - 2]))
    return SymArr(out, dtype=float64)


def diff(y):
    y = asarray(y)
    y._need_dense("diff")
    e = y.elems
    if y.dtype.kind == "b":
        return SymArr([_not(_eq(e[i + 1], e[i])) for i in range(len(e) - 1)], dtype=bool_)
    return SymArr([_sub(e[i + 1], e[i]) for i in range(len(e) - 1)])


def unique(x):
    """Only `.size` of the result is used by the encoded code: returned as a
    dense array of the distinct values (forks on equalities)."""
    x = asarray(x)
    x._need_dense("unique")
    out = []
    for e in x.elems:
        dup = False
        for o in out:
            if decide(_eq(e, o)):
                dup = True
                break
        if not dup:
            out.append(e)
    return SymArr(out, dtype=x.dtype)


def concatenate(arrs, axis=0):
    if axis == 1:
        from .symnp2d import Sym2D
        return Sym2D.hstack(arrs)
    out = []
    for a in arrs:
        a = asarray(a)
        a._need_dense("concatenate")
        out.extend(a.elems)
    return SymArr(out)


def bincount(x):
    x = asarray(x)
    vals = [concretize(v, 0, len(x._idx), "bincount value") if isinstance(v, SymInt) else int(v)
            for v in x.elems]
    m = (builtins_max(vals) + 1) if vals else 0
    out = [0] * m
    for v in vals:
        out[v] += 1
    return SymArr(out, dtype=int64)


import builtins as _b
builtins_max = _b.max


def atleast_2d(x):
    from .symnp2d import Sym2D
    return Sym2D.atleast_2d(x)


def atleast_1d(x):
    if isinstance(x, SymArr):
        return x
    if isinstance(x, (list, tuple)):
        return SymArr(list(x))
    return SymArr([x])


def allclose(a, b, rtol=1e-05, atol=1e-08, equal_nan=False):
    a = asarray(a)
    b = asarray(b)
    if len(a._idx) != len(b._idx):
        raise ValueError("operands could not be broadcast together")
    ok = True
    for x, y in zip(a.elems, b.elems):
        if is_nan(x) or is_nan(y):
            c = equal_nan and is_nan(x) and is_nan(y)
        else:
            c = sym_abs(_sub(x, y)) <= _add(nice_fraction(atol), _mul(nice_fraction(rtol), sym_abs(y)))
        ok = _and(ok, c)
    return ok


class errstate:
    def __init__(self, **k):
        pass

    def __enter__(self):
        return self

    def __exit__(self, *a):
        return False


def isscalar(x):
    return not isinstance(x, (SymArr, list, tuple))


def _Scalar0(x):
    return x


class _Linalg:
    @staticmethod
    def lstsq(A, y, rcond=None):
        raise Unsupported("np.linalg.lstsq (installed per harness)")


linalg = _Linalg()


def vstack(arrs):
    from .symnp2d import Sym2D
    return Sym2D.from_rows([asarray(a) for a in arrs])


def loadtxt(*a, **k):
    raise Unsupported("np.loadtxt (installed per harness)")


def savetxt(*a, **k):
    raise Unsupported("np.savetxt (installed per harness)")


def fromfile(*a, **k):
    raise Unsupported("np.fromfile")


# ---------------------------------------------------------------------------
# further numpy functions (not used by the pinned tree; present so that small
# refactorings of the code under test stay inside the encodable subset)

def full_like(a, fill_value, dtype=None):
    a = asarray(a)
    out = SymArr([fill_value] * len(a._idx), dtype=dtype or (float64 if isinstance(fill_value, float) else a.dtype))
    if a.present is not None:
        out.present = list(a.present)
    return out


def clip(a, lo, hi):
    f = lambda x: x if is_nan(x) else (sym_ite(x < lo, lo, sym_ite(x > hi, hi, x)))
    return a._unop(f) if isinstance(a, SymArr) else f(_conc(a))


def square(x):
    return x * x


def power(x, p):
    return x ** p


def count_nonzero(x):
    return asarray(x).astype(bool_).sum()


def flatnonzero(x):
    return where(asarray(x).astype(bool_))[0]


def nonzero(x):
    return where(asarray(x).astype(bool_))


def array_equal(a, b, equal_nan=False):
    a, b = asarray(a), asarray(b)
    a._need_dense("array_equal")
    b._need_dense("array_equal")
    if len(a._idx) != len(b._idx):
        return False
    acc = True
    for x, y in zip(a.elems, b.elems):
        if is_nan(x) or is_nan(y):
            c = equal_nan and is_nan(x) and is_nan(y)
        else:
            c = _eq(x, y)
        acc = _and(acc, c)
    return acc


def isclose(a, b, rtol=1e-05, atol=1e-08, equal_nan=False):
    f = lambda x, y: ((equal_nan and is_nan(x) and is_nan(y)) if (is_nan(x) or is_nan(y)) else
                      (sym_abs(_sub(x, y)) <= _add(nice_fraction(atol), _mul(nice_fraction(rtol), sym_abs(y)))))
    if isinstance(a, SymArr):
        return a._binop(b, f, bool_)
    if isinstance(b, SymArr):
        return b._binop(a, lambda y, x: f(x, y), bool_)
    return f(_conc(a), _conc(b))


def flip(a, axis=None):
    return asarray(a)[::-1]


def append(a, v):
    a = asarray(a)
    a._need_dense("append")
    extra = asarray(v).elems if isinstance(v, (SymArr, list, tuple)) else [v]
    return SymArr(a.elems + list(extra))


def hstack(arrs):
    return concatenate(arrs)


def cumsum(a):
    a = asarray(a)
    a._need_dense("cumsum")
    out, tot = [], 0
    for e in a.elems:
        tot = _add(tot, e)
        out.append(tot)
    return SymArr(out)


def prod(a):
    a = asarray(a)
    a._need_dense("prod")
    tot = 1
    for e in a.elems:
        tot = _mul(tot, e)
    return tot


def dot(a, b):
    return (asarray(a) * asarray(b)).sum()


def nanmean(a):
    a = asarray(a)
    a._need_dense("nanmean")
    vals = [e for e in a.elems if not is_nan(e)]
    if not vals:
        return float("nan")
    return SymArr(vals).mean()


def median(a):
    from .symscipy import _median
    a = asarray(a)
    a._need_dense("median")
    e = a.elems
    if not e:
        return float("nan")
    if len(e) % 2 == 1:
        return _median(list(e))
    raise Unsupported("median of an even number of symbolic samples")


def floor(x):
    return x._unop(core.sym_floor) if isinstance(x, SymArr) else core.sym_floor(_conc(x))


def exp(x):
    f = lambda v: (v if is_nan(v) else core.sym_fun("exp", v, lambda r, a: r > 0))
    return x._unop(f, float64) if isinstance(x, SymArr) else f(_conc(x))
