"""Sequential exploration of one task, printing slow / non-unsat obligations.
python -m symx.debug_explore C04 0 [tier] [timeout_ms] [maxpaths]"""
import sys, time, importlib
from . import driver
pid, idx = sys.argv[1], int(sys.argv[2])
tier = sys.argv[3] if len(sys.argv) > 3 else "quick"
sys.path.insert(0, driver.VERIF)
mod = importlib.import_module(f"harness.{pid.lower()}")
task = mod.tasks(tier)[idx]
task["timeout_ms"] = int(sys.argv[4]) if len(sys.argv) > 4 else 10000
maxp = int(sys.argv[5]) if len(sys.argv) > 5 else 1000
todo = [[]]
n = 0
while todo and n < maxp:
    prefix = todo.pop()
    t = time.time()
    r = driver.run_path(f"harness.{pid.lower()}", task, prefix)
    n += 1
    bad = [(o["name"], o["result"], round(o.get("time", 0), 1)) for o in r["obligations"]
           if o["result"] != "unsat" or o.get("time", 0) > 2]
    print(n, "".join("1" if b else "0" for b in prefix) or "-", r["status"], f"{time.time()-t:.1f}s",
          "dec=%d" % len(r["decisions"]), r["queries"], bad[:8], (r["err"] or "")[-300:], flush=True)
    dec = r["decisions"]
    for i in range(len(prefix), len(dec)):
        if dec[i][1]:
            todo.append([d[0] for d in dec[:i]] + [not dec[i][0]])
print("paths", n, "remaining", len(todo))
