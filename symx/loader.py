"""Load the *unmodified* nanite source (and the three pure-Python afmformats
base-class files) from disk at check time, under redirected imports.

Nothing is cached between runs: the module objects are built by compiling
the current text of /repo/src/nanite/**.py.  sha256 of every file loaded is
recorded for the evidence.
"""
import builtins
import hashlib
import importlib
import os
import sys
import types

REPO = os.environ.get("NANITE_REPO", "/repo")
SRC = os.path.join(REPO, "src")
AFM_DIR = None


def _afm_dir():
    global AFM_DIR
    if AFM_DIR is None:
        spec = importlib.util.find_spec("afmformats")
        AFM_DIR = os.path.dirname(spec.origin)
    return AFM_DIR


class Dummy(types.ModuleType):
    """Inert stand-in for modules whose behaviour is outside every claim."""

    def __getattr__(self, name):
        if name.startswith("__"):
            raise AttributeError(name)
        d = Dummy(self.__name__ + "." + name)
        setattr(self, name, d)
        return d

    def __call__(self, *a, **k):
        return Dummy(self.__name__ + "()")

    def __iter__(self):
        return iter(())

    def __mro_entries__(self, bases):
        return (object,)


class World:
    """One private module universe."""

    DUMMIES = ("sklearn", "h5py", "matplotlib", "tifffile", "tkinter",
               "appdirs", "scipy")

    def __init__(self, shims=None, builtins_override=None, real_modules=()):
        self.modules = {}
        self.shims = dict(shims or {})
        self.hashes = {}
        self.real_modules = set(real_modules)
        self.bi = dict(vars(builtins))
        self.bi["__import__"] = self._import
        if builtins_override:
            self.bi.update(builtins_override)
        # synthetic packages
        for pk in ("nanite", "nanite.model", "nanite.rate", "nanite.cli", "afmformats"):
            m = types.ModuleType(pk)
            m.__path__ = []
            m.__package__ = pk
            self.modules[pk] = m

    # -- file lookup -----------------------------------------------------------
    def _file_for(self, name):
        parts = name.split(".")
        if parts[0] == "nanite":
            base = os.path.join(SRC, *parts)
            if os.path.isfile(base + ".py"):
                return base + ".py", False
            if os.path.isfile(os.path.join(base, "__init__.py")):
                return os.path.join(base, "__init__.py"), True
        if parts[0] == "afmformats" and len(parts) == 2 and parts[1] in (
                "afm_data", "afm_segment", "mod_force_distance", "_version",
                "afm_group", "afm_qmap"):
            return os.path.join(_afm_dir(), parts[1] + ".py"), False
        return None, False

    def _ready(self, name):
        m = self.modules.get(name)
        if m is None:
            return None
        if isinstance(m, Dummy) or "__builtins__" in m.__dict__ or name in self.lazy_pkgs:
            return m
        return None

    def load(self, name):
        """Load module `name` (dotted) into this world."""
        m = self._ready(name)
        if m is not None:
            return m
        if name in self.shims:
            self.modules[name] = self.shims[name]
            return self.shims[name]
        top = name.split(".")[0]
        if name in self.real_modules or top in self.real_modules:
            return importlib.import_module(name)
        if name == "nanite_model_sneddon_spher":
            raise ImportError(name)
        path, is_pkg = self._file_for(name)
        if path is None:
            if top in self.DUMMIES or top == "afmformats":
                if name == "afmformats.errors" or name == "afmformats.meta":
                    return importlib.import_module(name)
                d = Dummy(name)
                self.modules[name] = d
                return d
            # stdlib and everything else: the real thing
            return importlib.import_module(name)
        return self._exec(name, path, is_pkg)

    def _exec(self, name, path, is_pkg):
        with open(path, "rb") as fh:
            raw = fh.read()
        self.hashes[os.path.relpath(path, "/")] = hashlib.sha256(raw).hexdigest()
        m = self.modules.get(name)
        if m is None or not isinstance(m, types.ModuleType):
            m = types.ModuleType(name)
        m.__file__ = path
        m.__name__ = name
        m.__package__ = name if is_pkg else name.rpartition(".")[0]
        if is_pkg:
            m.__path__ = [os.path.dirname(path)]
        m.__dict__["__builtins__"] = self.bi
        self.modules[name] = m
        parent, _, leaf = name.rpartition(".")
        code = compile(raw, path, "exec")
        exec(code, m.__dict__)
        if parent and parent in self.modules:
            setattr(self.modules[parent], leaf, m)
        return m

    def load_pkg_init(self, name):
        """Execute a real package __init__ (e.g. nanite.model)."""
        path, is_pkg = self._file_for(name)
        assert is_pkg, name
        return self._exec(name, path, True)

    # -- import hook ---------------------------------------------------------------
    def _import(self, name, globals=None, locals=None, fromlist=(), level=0):
        if level > 0:
            pkg = (globals or {}).get("__package__") or ""
            base = pkg.split(".")
            if level > 1:
                base = base[:-(level - 1)]
            absname = ".".join([p for p in base if p] + ([name] if name else []))
        else:
            absname = name
        top = absname.split(".")[0]
        ours = (top in ("nanite", "afmformats") or top in self.DUMMIES
                or absname in self.shims or top in self.shims)
        if absname.startswith("nanite_model_sneddon_spher"):
            # optional extension package (real numpy/lmfit inside): not part of this universe
            raise ImportError(absname)
        if not ours:
            return builtins.__import__(name, globals, locals, fromlist, level)
        mod = self._get(absname)
        if fromlist:
            for f in fromlist:
                if f == "*":
                    continue
                if not hasattr(mod, f) or (isinstance(mod, types.ModuleType)
                                           and not isinstance(mod, Dummy)
                                           and f not in mod.__dict__):
                    sub = absname + "." + f
                    try:
                        sm = self._get(sub)
                        setattr(mod, f, sm)
                    except ImportError:
                        if not hasattr(mod, f):
                            raise
            return mod
        # `import a.b.c` binds a
        if level == 0:
            return self._get(top)
        return mod

    def _get(self, absname):
        if absname in self.shims:
            return self.shims[absname]
        m = self._ready(absname)
        if m is not None:
            return m
        parent = absname.rpartition(".")[0]
        if parent and self._ready(parent) is None and parent.split(".")[0] in ("nanite", "afmformats"):
            self._get(parent)
        return self.load(absname)

    #: packages whose real __init__ is *not* executed on import (synthetic)
    lazy_pkgs = {"nanite", "afmformats", "nanite.cli"}


def source_hashes(world):
    return dict(sorted(world.hashes.items()))
