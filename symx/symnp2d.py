"""Minimal 2-D companion of symnp.SymArr: a list of rows (each a SymArr)."""
from . import symnp, core
from .core import Unsupported


class Sym2D:
    def __init__(self, rows, ncols=None):
        self.rows = list(rows)
        self.ncols = ncols if ncols is not None else (len(self.rows[0]._idx) if self.rows else 0)

    @classmethod
    def from_rows(cls, rows, dtype=None):
        return cls([symnp.asarray(r) for r in rows])

    @classmethod
    def atleast_2d(cls, x):
        if isinstance(x, Sym2D):
            return x
        if isinstance(x, symnp.SymArr):
            return cls([x])
        if isinstance(x, (list, tuple)):
            if x and all(isinstance(r, (symnp.SymArr, list, tuple)) for r in x):
                return cls([symnp.asarray(r) for r in x])
            return cls([symnp.SymArr(list(x))])
        return cls([symnp.SymArr([x])])

    @classmethod
    def hstack(cls, arrs):
        arrs = [cls.atleast_2d(a) if not isinstance(a, Sym2D) else a for a in arrs]
        n = len(arrs[0].rows)
        rows = []
        for i in range(n):
            e = []
            for a in arrs:
                e.extend(a.rows[i].elems)
            rows.append(symnp.SymArr(e))
        return cls(rows)

    @classmethod
    def column(cls, elems):
        return cls([symnp.SymArr([e]) for e in elems], ncols=1)

    @property
    def shape(self):
        return (len(self.rows), self.ncols)

    @property
    def size(self):
        return len(self.rows) * self.ncols

    @property
    def ndim(self):
        return 2

    @property
    def T(self):
        return Sym2D([symnp.SymArr([r.elems[j] for r in self.rows]) for j in range(self.ncols)],
                     ncols=len(self.rows))

    def __len__(self):
        return len(self.rows)

    def __iter__(self):
        return iter(self.rows)

    def flatten(self):
        e = []
        for r in self.rows:
            e.extend(r.elems)
        return symnp.SymArr(e)

    def col(self, j):
        return symnp.SymArr([r.elems[j] for r in self.rows])

    def __getitem__(self, k):
        if isinstance(k, tuple) and len(k) == 2:
            r, c = k
            if isinstance(r, slice) and r == slice(None):
                if isinstance(c, int):
                    return _ColView(self, c)
                if isinstance(c, (list, symnp.SymArr)):
                    idx = [int(i) for i in (c.elems if isinstance(c, symnp.SymArr) else c)]
                    return Sym2D([symnp.SymArr([row.elems[j] for j in idx]) for row in self.rows], ncols=len(idx))
            if isinstance(r, symnp.SymArr) and r.dtype.kind == "b":
                keep = [i for i, m in enumerate(r.elems) if core.decide(m)]
                if isinstance(c, slice) and c == slice(None):
                    return Sym2D([self.rows[i] for i in keep], ncols=self.ncols)
                if isinstance(c, int):
                    return symnp.SymArr([self.rows[i].elems[c] for i in keep])
            if isinstance(r, int) and isinstance(c, int):
                return self.rows[r].elems[c]
            raise Unsupported(f"2-D index {k}")
        if isinstance(k, int):
            return self.rows[k]
        if isinstance(k, symnp.SymArr) and k.dtype.kind == "b":
            keep = [i for i, m in enumerate(k.elems) if core.decide(m)]
            return Sym2D([self.rows[i] for i in keep], ncols=self.ncols)
        raise Unsupported(f"2-D index {k}")

    def __setitem__(self, k, v):
        if isinstance(k, tuple) and len(k) == 2:
            r, c = k
            if isinstance(r, symnp.SymArr) and r.dtype.kind == "b" and isinstance(c, int):
                for i, m in enumerate(r.elems):
                    cur = self.rows[i].elems[c]
                    self.rows[i]._set(c, core.sym_ite(m, symnp._conc(v), cur) if not isinstance(m, bool)
                                      else (symnp._conc(v) if m else cur))
                return
        raise Unsupported(f"2-D setitem {k}")


class _ColView(symnp.SymArr):
    """samples[:, j]: a view whose writes go to the matrix."""

    def __init__(self, mat, j):
        self._mat, self._j = mat, j
        super().__init__([r.elems[j] for r in mat.rows])

    def _set(self, k, v):
        super()._set(k, v)
        self._mat.rows[k]._set(self._j, v)
