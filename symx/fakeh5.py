"""In-memory model of the h5py subset used by nanite.rate.io, with h5py's
documented store contract: require_group is idempotent, create_group /
create_dataset fail on existing names, datasets and attributes return what
was stored, groups iterate in name order, every write may fail (fault
injection by write index)."""
import copy

__version__ = "fakeh5"

FILES = {}
STATE = {"writes": 0, "fault_at": None, "log": []}


def reset():
    FILES.clear()
    STATE.update(writes=0, fault_at=None, log=[])


def _write(what):
    i = STATE["writes"]
    STATE["writes"] = i + 1
    STATE["log"].append(what)
    if STATE["fault_at"] is not None and i == STATE["fault_at"]:
        raise OSError(f"injected failure at write #{i}: {what}")


class Attrs:
    def __init__(self, owner):
        self._d = {}
        self._owner = owner

    def __setitem__(self, k, v):
        _write(f"attr {self._owner}:{k}")
        if v is None:
            raise TypeError("Object dtype dtype('O') has no native HDF5 equivalent")
        self._d[k] = copy.deepcopy(v)

    def __getitem__(self, k):
        return copy.deepcopy(self._d[k])

    def __contains__(self, k):
        return k in self._d

    def __iter__(self):
        return iter(sorted(self._d))

    def keys(self):
        return sorted(self._d)

    def items(self):
        return [(k, copy.deepcopy(self._d[k])) for k in sorted(self._d)]

    def values(self):
        return [copy.deepcopy(self._d[k]) for k in sorted(self._d)]

    def get(self, k, default=None):
        return copy.deepcopy(self._d[k]) if k in self._d else default

    def __len__(self):
        return len(self._d)

    def __delitem__(self, k):
        _write(f"del attr {self._owner}:{k}")
        del self._d[k]

    def pop(self, k, *default):
        if k in self._d:
            _write(f"del attr {self._owner}:{k}")
            return self._d.pop(k)
        if default:
            return default[0]
        raise KeyError(k)

    def update(self, other):
        for k, v in dict(other).items():
            self[k] = v

    def create(self, k, data, **kw):
        self[k] = data

    def modify(self, k, v):
        self[k] = v


class Dataset:
    def __init__(self, name, data):
        self.name = name
        self.data = data.copy() if hasattr(data, "copy") else data
        self.attrs = Attrs(name)

    def __getitem__(self, k):
        return self.data.copy() if hasattr(self.data, "copy") else self.data

    def __symx_array__(self):
        return self[...]


class Group:
    def __init__(self, name="/"):
        self.name = name
        self._c = {}
        self.attrs = Attrs(name)

    def require_group(self, n):
        if n not in self._c:
            _write(f"group {self.name}{n}")
            self._c[n] = Group(self.name + n + "/")
        return self._c[n]

    def create_group(self, n):
        if n in self._c:
            raise ValueError("Unable to create group (name already exists)")
        _write(f"group {self.name}{n}")
        self._c[n] = Group(self.name + n + "/")
        return self._c[n]

    def create_dataset(self, n, data=None, **kw):
        if n in self._c:
            raise ValueError("Unable to create dataset (name already exists)")
        _write(f"dataset {self.name}{n}")
        self._c[n] = Dataset(self.name + n, data)
        return self._c[n]

    def __contains__(self, n):
        return n in self._c

    def __getitem__(self, n):
        return self._c[n]

    def __iter__(self):
        return iter(sorted(self._c))

    def keys(self):
        return sorted(self._c)


class File:
    def __init__(self, path, mode="r"):
        self.path = str(path)
        self.mode = mode

    def __enter__(self):
        if self.mode == "r":
            if self.path not in FILES:
                raise OSError("Unable to open file (file does not exist)")
        elif self.mode == "w":
            FILES[self.path] = Group()
        else:
            FILES.setdefault(self.path, Group())
        return FILES[self.path]

    def __exit__(self, *a):
        return False


def snapshot(path):
    """Deep structural snapshot of a file tree (for before/after comparison)."""
    def snap(g):
        out = {"attrs": {k: g.attrs._d[k] for k in g.attrs._d}}
        if isinstance(g, Group):
            out["children"] = {n: snap(c) for n, c in g._c.items()}
        else:
            out["data"] = list(g.data.elems) if hasattr(g.data, "elems") else g.data
        return out
    return snap(FILES[str(path)]) if str(path) in FILES else None
